-------------------------- MODULE DjcRenderMachine --------------------------
(***************************************************************************)
(* Implementation-shaped model (layer B) of the deferred component         *)
(* renderer (component.py: _render_impl, perfutil/component.py:            *)
(* component_post_render) over the per-render registries (C06, C14 order): *)
(*   ctx  ~ component_context_cache   (ids of prepared, unfinished comps)  *)
(*   rend ~ component_renderer_cache  (ids whose deferred renderer waits)  *)
(* A component tag first PREPARES the component (registers it, calls       *)
(* get_context_data) and leaves a placeholder; a component without a       *)
(* parent in its context is a render ROOT: it runs a queue that renders    *)
(* the waiting components parent-first in document order                   *)
(* (on_render_before, template - which prepares the children -, and, when  *)
(* its last part is joined, on_render_after + release).  Roots nest (a     *)
(* component used in page-level fill content in isolated mode is a root    *)
(* inside another root's template evaluation): `sess` is the stack of      *)
(* running queues.  Every user-code event has a failing alternative; the   *)
(* exception unwinds through the _render wrappers, which (Cleanup = TRUE,  *)
(* the current code) release the failed component and everything           *)
(* registered under every running root.  With Cleanup = FALSE (the code    *)
(* before the fix recorded in KNOWN_FINDINGS.txt) TLC refutes Quiescent.   *)
(***************************************************************************)
EXTENDS Naturals, Sequences, FiniteSets

CONSTANTS MaxNodes, MaxDepth, Cleanup, AllowFail

VARIABLES pc,      \* "idle" | "running" | "done" | "raised"
          ctx, rend,
          sess,    \* stack of sessions [queue, cur, stage, kids]; top = last
          n,       \* number of components created so far
          last     \* the last event (observation)
vars == <<pc, ctx, rend, sess, n, last>>

Session(q) == [queue |-> q, cur |-> 0, stage |-> "none", kids |-> <<>>]
Top(S) == S[Len(S)]
SetTop(S, t) == [S EXCEPT ![Len(S)] = t]
Pop(S) == SubSeq(S, 1, Len(S) - 1)

Init == pc = "idle" /\ ctx = {} /\ rend = {} /\ sess = <<>> /\ n = 0 /\ last = <<"init">>

\* ---- silent progress -----------------------------------------------------------
\* the template of the component being rendered has been evaluated completely: its children
\* are queued in document order, followed by the item that finishes the component
EndTemplate(S) ==
  LET t == Top(S) IN
  SetTop(S, [t EXCEPT !.queue = [i \in 1..Len(t.kids) |-> <<"comp", t.kids[i]>>] \o << <<"end", t.cur>> >> \o t.queue,
                      !.cur = 0, !.stage = "none", !.kids = <<>>])
\* a nested root whose queue is empty has returned its HTML to the template that contains it
RECURSIVE DropFinished(_)
DropFinished(S) ==
  IF S # <<>> /\ Top(S).cur = 0 /\ Top(S).queue = <<>> THEN DropFinished(Pop(S)) ELSE S

\* ---- events ---------------------------------------------------------------------
\* what a failing user-code call leaves behind
Raise(who, inPrep) ==
  /\ pc' = "raised" /\ sess' = <<>>
  /\ IF Cleanup THEN ctx' = {} /\ rend' = {}
     ELSE ctx' = ctx \cup (IF inPrep THEN {who} ELSE {}) /\ rend' = rend
  /\ UNCHANGED n

\* {% component %} tag reached: _render_impl registers the component and calls get_context_data
Gcd(k, isRoot, ok) ==
  /\ k = n + 1 /\ k <= MaxNodes
  /\ IF sess = <<>> THEN pc \in {"idle", "done"} /\ isRoot      \* top-level call (a page may hold several roots)
     ELSE pc = "running" /\ Top(sess).stage = "kids" /\ Len(sess) <= MaxDepth
  /\ last' = <<"gcd", k, isRoot, ok>>
  /\ IF ~ok THEN Raise(k, TRUE)
     ELSE /\ pc' = "running" /\ n' = k
          /\ ctx' = ctx \cup {k} /\ rend' = rend \cup {k}
          /\ IF isRoot THEN sess' = Append(sess, Session(<< <<"comp", k>> >>))
             ELSE sess' = SetTop(sess, [Top(sess) EXCEPT !.kids = Append(@, k)])

\* the queue reaches a waiting component: on_render_before
Before(c, ok) ==
  /\ pc = "running" /\ sess # <<>>
  /\ LET S == IF Top(sess).stage = "kids" THEN EndTemplate(sess) ELSE sess
         t == Top(S) IN
     /\ t.cur = 0 /\ t.queue # <<>> /\ Head(t.queue) = <<"comp", c>>
     /\ last' = <<"before", c, ok>>
     /\ IF ~ok THEN Raise(c, FALSE) /\ TRUE
        ELSE /\ sess' = SetTop(S, [t EXCEPT !.queue = Tail(@), !.cur = c, !.stage = "tpl"])
             /\ rend' = rend \ {c} /\ UNCHANGED <<pc, ctx, n>>

\* the component's template starts evaluating (first user tag of the template)
Tpl(c, ok) ==
  /\ pc = "running" /\ sess # <<>> /\ Top(sess).cur = c /\ Top(sess).stage = "tpl"
  /\ last' = <<"tpl", c, ok>>
  /\ IF ~ok THEN Raise(c, FALSE)
     ELSE sess' = SetTop(sess, [Top(sess) EXCEPT !.stage = "kids"]) /\ UNCHANGED <<pc, ctx, rend, n>>

\* the last part of a component is joined: on_render_after, then its data is released
After(c, ok) ==
  /\ pc = "running" /\ sess # <<>>
  /\ LET S == IF Top(sess).stage = "kids" THEN EndTemplate(sess) ELSE sess
         t == Top(S) IN
     /\ t.cur = 0 /\ t.queue # <<>> /\ Head(t.queue) = <<"end", c>>
     /\ last' = <<"after", c, ok>>
     /\ IF ~ok THEN Raise(c, FALSE)
        ELSE LET S2 == DropFinished(SetTop(S, [t EXCEPT !.queue = Tail(@)])) IN
             /\ sess' = S2 /\ ctx' = ctx \ {c}
             /\ pc' = IF S2 = <<>> THEN "done" ELSE "running"
             /\ UNCHANGED <<rend, n>>

Oks == IF AllowFail THEN BOOLEAN ELSE {TRUE}
Next == \E ok \in Oks :
          \/ \E r \in BOOLEAN : Gcd(n + 1, r, ok)
          \/ \E c \in 1..n : Before(c, ok) \/ Tpl(c, ok) \/ After(c, ok)
Spec == Init /\ [][Next]_vars

\* ---- properties -------------------------------------------------------------------
\* C06: whenever no render is in progress nothing is left in the registries
Quiescent == pc \in {"idle", "done", "raised"} => ctx = {} /\ rend = {} /\ sess = <<>>
\* every waiting renderer belongs to a prepared component; a finished render has an empty stack
WellFormed == rend \subseteq ctx /\ (pc = "done" => sess = <<>>)
\* parent first: a component is finished only after it was started, and started only after prepared
Ordered == [][/\ (last'[1] = "after" => last'[2] \in ctx)
              /\ (last'[1] = "before" => last'[2] \in rend)]_vars
=============================================================================
