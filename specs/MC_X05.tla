------------------------------- MODULE MC_X05 -------------------------------
(***************************************************************************)
(* Bounded instance of MgmtCommands!Start: the state graph of the file     *)
(* system under every `startcomponent` invocation (Names x Wheres x        *)
(* --js/--css/--template given or not x --force x --dry-run x --verbose),  *)
(* explored to depth MaxDepth from each seed file system.  A state of the  *)
(* graph is the file system (VIEW: how it was reached is left out), so     *)
(* every (file system, invocation) pair is generated exactly once.  The    *)
(* two action properties are evaluated by TLC on every generated           *)
(* transition: Theorems checks what the documentation promises, Export     *)
(* writes the transition (source file system, invocation, admitted         *)
(* outcomes) as one JSON line together with one shortest history of        *)
(* invocations that leads to its source state; the harness replays that    *)
(* history with the real command and compares the last step (spec ->       *)
(* code).                                                                  *)
(***************************************************************************)
EXTENDS MgmtCommands, TLC, Json, IOUtils

CONSTANTS Names, Wheres, JsOpts, CssOpts, TplOpts, SeedIdx, MaxDepth

VARIABLES fs, dirs,                \* the file system
          last,                    \* the invocation just made and the outcomes it admitted
          seed, how, depth         \* how the state was reached
mcVars == <<fs, dirs, last, seed, how, depth>>
View == <<fs, dirs>>

\* user files / directories present before the first invocation
Seeds == <<
  [files |-> {}, dirs |-> {}],
  [files |-> {}, dirs |-> {<<"lib", "alpha">>}],                                  \* an empty directory of that name
  [files |-> {<<"lib", "alpha", "script.js">>, <<"lib", "alpha", "keep.txt">>}, dirs |-> {}],
  [files |-> {<<"proj", "components", "alpha", "alpha.py">>, <<"proj", "components", "alpha", "my_style.css">>},
   dirs |-> {<<"proj", "ui", "beta">>}],
  [files |-> {<<"proj", "my_components", "beta", "template.html">>, <<"proj", "ui", "alpha", "notes.md">>,
              <<"lib", "beta", "beta.py">>}, dirs |-> {}] >>
SeedFs(k) == [p \in Seeds[k].files |-> User(<<>>)]
SeedDirs(k) == PresetDirs \cup Seeds[k].dirs \cup UNION {Ancestors(SubSeq(p, 1, Len(p) - 1)) : p \in Seeds[k].files}

Invs == {i \in [name : Names, w : Wheres, js : JsOpts, css : CssOpts, tpl : TplOpts,
                force : BOOLEAN, dry : BOOLEAN, verbose : BOOLEAN] : NamesDistinct(i)}

MCInit == /\ seed \in SeedIdx /\ fs = SeedFs(seed) /\ dirs = SeedDirs(seed)
          /\ last = [inv |-> 0, admitted |-> {}] /\ how = <<>> /\ depth = 0

Step(i) == /\ depth < MaxDepth
           /\ \E o \in Start(fs, dirs, i) : fs' = o.fs /\ dirs' = o.dirs
           /\ last' = [inv |-> i, admitted |-> Start(fs, dirs, i)]
           /\ how' = Append(how, i) /\ depth' = depth + 1 /\ seed' = seed

MCNext == \E i \in Invs : Step(i)
MCSpec == MCInit /\ [][MCNext]_mcVars

(* ---- theorems ------------------------------------------------------------------------------- *)
WellFormed == /\ \A p \in DOMAIN fs : Ancestors(SubSeq(p, 1, Len(p) - 1)) \subseteq dirs     \* files lie in directories
              /\ DOMAIN fs \cap dirs = {}

I == last'.inv
Adm == last'.admitted
Changed == {p \in DOMAIN fs' : p \notin DOMAIN fs \/ fs'[p] # fs[p]}
TheoremsA ==
  /\ DOMAIN fs \subseteq DOMAIN fs' /\ dirs \subseteq dirs'                       \* nothing is ever deleted
  /\ I.dry => fs' = fs /\ dirs' = dirs                                            \* [S6] in every combination
  /\ ~I.force => \A p \in DOMAIN fs : fs'[p] = fs[p]                              \* [S5] never overwrites
  /\ (CompDir(I) \in dirs /\ ~I.force) => \A o \in Adm : o.res = "error"
  /\ Changed \subseteq Written(I)                                                 \* exactly the documented files ...
  /\ dirs' \ dirs \subseteq Ancestors(CompDir(I))                                 \* ... and nothing else
  /\ \A o \in Adm : o.written # {} =>
       /\ o.written = Written(I) /\ o.res = "ok"
       /\ LET py == o.fs[CompDir(I) \o <<PyName(I)>>] IN                          \* [S8]
          /\ py.reg = I.name
          /\ \A f \in {py.tpl, py.js, py.css} : CompDir(I) \o <<f>> \in DOMAIN o.fs
  /\ VerboseIrrelevant(fs, dirs, I)                                               \* [S7]
  /\ (/\ I.w # "D" /\ I.js = "" /\ I.css = "" /\ I.tpl = "" /\ ~I.dry
      /\ CompDir(I) \notin dirs /\ WhereDir(I.w) \in dirs)
     => \A o \in Adm : o.written = {CompDir(I) \o <<f>> :                         \* [S3]
                                      f \in {"script.js", "style.css", "template.html", I.name \o ".py"}}
Theorems == [][TheoremsA]_mcVars

AsRows(f) == {[path |-> p, tag |-> f[p]] : p \in DOMAIN f}
AsOutcomes(S) == {[res |-> o.res, files |-> AsRows(o.fs), dirs |-> o.dirs, written |-> o.written] : o \in S}
ExportA ==
  Serialize(ToJson([seed |-> seed, seedfiles |-> Seeds[seed].files, seeddirs |-> Seeds[seed].dirs,
                    how |-> how', inv |-> I, depth |-> depth',
                    pre |-> AsRows(fs), predirs |-> dirs,
                    admitted |-> AsOutcomes(Adm),
                    devs |-> {[keys |-> a.keys, admitted |-> AsOutcomes(a.admitted)] :
                                a \in StartDevAlts(fs, dirs, I)}]) \o "\n",
            IOEnv.OUT, [format |-> "TXT", charset |-> "UTF-8",
                        openOptions |-> <<"WRITE", "CREATE", "APPEND">>]).exitValue = 0
Export == [][ExportA]_mcVars
=============================================================================
