------------------------------- MODULE MC_X05 -------------------------------
(***************************************************************************)
(* Bounded instance of MgmtCommands!Start: the state graph of the file     *)
(* system under every `startcomponent` invocation (Names x Wheres x        *)
(* --js/--css/--template given or not x --force x --dry-run x --verbose),  *)
(* explored to depth MaxDepth from each seed file system.  Every           *)
(* transition (source file system, invocation, admitted outcomes) is       *)
(* exported once (VIEW leaves out how it was reached) together with one    *)
(* shortest history of invocations that leads to its source state; the     *)
(* harness replays that history with the real command and compares the     *)
(* last step (spec -> code).  The theorems below are checked on every      *)
(* transition.                                                             *)
(***************************************************************************)
EXTENDS MgmtCommands, TLC, Json, IOUtils

CONSTANTS Names, Wheres, JsOpts, CssOpts, TplOpts, SeedIdx, MaxDepth

VARIABLES fs, dirs,          \* the file system
          last,              \* the transition just taken
          pfs, pdirs,        \* the file system it was taken in
          seed, how, depth   \* how the source state was reached (not part of the VIEW)
mcVars == <<fs, dirs, last, pfs, pdirs, seed, how, depth>>
View == <<fs, dirs, last, pfs, pdirs>>

\* user files / directories present before the first invocation
F(p) == p
Seeds == <<
  [files |-> {}, dirs |-> {}],
  [files |-> {}, dirs |-> {<<"lib", "alpha">>}],                                  \* an empty directory of that name
  [files |-> {<<"lib", "alpha", "script.js">>, <<"lib", "alpha", "keep.txt">>}, dirs |-> {}],
  [files |-> {<<"proj", "components", "alpha", "alpha.py">>, <<"proj", "components", "alpha", "my_style.css">>},
   dirs |-> {<<"proj", "ui", "beta">>}],
  [files |-> {<<"proj", "my_components", "beta", "template.html">>, <<"proj", "ui", "alpha", "notes.md">>,
              <<"lib", "beta", "beta.py">>}, dirs |-> {}] >>
SeedFs(k) == [p \in Seeds[k].files |-> User(<<>>)]
SeedDirs(k) == PresetDirs \cup Seeds[k].dirs \cup UNION {Ancestors(SubSeq(p, 1, Len(p) - 1)) : p \in Seeds[k].files}

Invs == {i \in [name : Names, w : Wheres, js : JsOpts, css : CssOpts, tpl : TplOpts,
                force : BOOLEAN, dry : BOOLEAN, verbose : BOOLEAN] : NamesDistinct(i)}

MCInit == /\ seed \in SeedIdx /\ fs = SeedFs(seed) /\ dirs = SeedDirs(seed)
          /\ last = [op |-> "init"] /\ pfs = fs /\ pdirs = dirs /\ how = <<>> /\ depth = 0

Step(i) == /\ depth < MaxDepth
           /\ \E o \in Start(fs, dirs, i) :
                /\ fs' = o.fs /\ dirs' = o.dirs
                /\ last' = [op |-> "start", inv |-> i, admitted |-> Start(fs, dirs, i)]
           /\ pfs' = fs /\ pdirs' = dirs /\ how' = Append(how, i) /\ depth' = depth + 1 /\ seed' = seed

MCNext == \E i \in Invs : Step(i)
MCSpec == MCInit /\ [][MCNext]_mcVars

(* ---- theorems (state predicates: the source state is part of the state) ---------------------- *)
Took == last.op = "start"
I == last.inv
Changed == {p \in DOMAIN fs : p \notin DOMAIN pfs \/ fs[p] # pfs[p]}
WellFormed == /\ \A p \in DOMAIN fs : Ancestors(SubSeq(p, 1, Len(p) - 1)) \subseteq dirs     \* files lie in directories
              /\ DOMAIN fs \cap dirs = {}
Theorems ==
  /\ WellFormed
  /\ Took =>
     /\ DOMAIN pfs \subseteq DOMAIN fs /\ pdirs \subseteq dirs                       \* nothing is ever deleted
     /\ I.dry => fs = pfs /\ dirs = pdirs                                            \* [S6] in every combination
     /\ ~I.force => \A p \in DOMAIN pfs : fs[p] = pfs[p]                             \* [S5] never overwrites
     /\ (CompDir(I) \in pdirs /\ ~I.force) => \A o \in last.admitted : o.res = "error"
     /\ Changed \subseteq Written(I)                                                 \* exactly the documented files ...
     /\ (DOMAIN fs \ DOMAIN pfs) \subseteq Written(I)
     /\ dirs \ pdirs \subseteq Ancestors(CompDir(I))                                 \* ... and nothing else
     /\ \A o \in last.admitted : o.written # {} =>
          /\ o.written = Written(I) /\ o.res = "ok"
          /\ LET py == o.fs[CompDir(I) \o <<PyName(I)>>] IN                          \* [S8]
             /\ py.reg = I.name
             /\ \A f \in {py.tpl, py.js, py.css} : CompDir(I) \o <<f>> \in DOMAIN o.fs
     /\ VerboseIrrelevant(pfs, pdirs, I)                                             \* [S7]
     /\ (GivesPath(I.w) \/ I.w = "B") /\ I.js = "" /\ I.css = "" /\ I.tpl = "" /\ ~I.dry /\ CompDir(I) \notin pdirs
          /\ WhereDir(I.w) \in pdirs
        => \A o \in last.admitted : o.written = {CompDir(I) \o <<f>> : f \in {"script.js", "style.css", "template.html",
                                                                               I.name \o ".py"}}   \* [S3]

AsRows(f) == {[path |-> p, tag |-> f[p]] : p \in DOMAIN f}
Export ==
  \/ ~Took
  \/ Serialize(ToJson([seed |-> seed, seedfiles |-> Seeds[seed].files, seeddirs |-> Seeds[seed].dirs,
                       how |-> how, inv |-> I, depth |-> depth,
                       pre |-> AsRows(pfs), predirs |-> pdirs,
                       admitted |-> {[res |-> o.res, files |-> AsRows(o.fs), dirs |-> o.dirs,
                                      written |-> o.written] : o \in last.admitted},
                       devs |-> {[keys |-> a.keys,
                                  admitted |-> {[res |-> o.res, files |-> AsRows(o.fs), dirs |-> o.dirs,
                                                 written |-> o.written] : o \in a.admitted}] :
                                   a \in StartDevAlts(pfs, pdirs, I)}]) \o "\n",
               IOEnv.OUT, [format |-> "TXT", charset |-> "UTF-8",
                           openOptions |-> <<"WRITE", "CREATE", "APPEND">>]).exitValue = 0
=============================================================================
