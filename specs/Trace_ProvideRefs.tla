-------------------------- MODULE Trace_ProvideRefs --------------------------
(***************************************************************************)
(* Trace validation (code -> spec) for ProvideRefs.tla.  IOEnv.IN names an *)
(* ndjson file; every line is one operation trace recorded by              *)
(* vf/provtrace.py from the real provide functions during real renders     *)
(* (one process history: 1..n top-level renders, successful and failing):  *)
(*   op in set | enter | reg | unreg | exit | inject | end,                *)
(*   id / ps (provide ids the registering context shows) / raised / found, *)
(*   and the projected state of the three registries AFTER the call.       *)
(* Every event must be the ProvideRefs action of that name: its guard       *)
(* (life cycle of the provider, VisibleAlive) must hold and the logged      *)
(* state must equal the action's result.  After every event the state       *)
(* variables take the LOGGED state (so that one disagreement does not hide  *)
(* the rest of the trace) and the invariants of ProvideRefs are evaluated   *)
(* on it.  Clauses:                                                         *)
(*   hard (contradict C05 / C06):                                           *)
(*     raised      a registry function raised                               *)
(*     inject      inject() under a visible provider found no data          *)
(*     wellformed  references to data that is no longer cached / empty or   *)
(*                 unknown referrer sets (RefsWellFormed on the real state) *)
(*     residue     registries not empty when a top-level render is over     *)
(*   soft (model drift, reported only):                                     *)
(*     post        logged state # result of the specification's transformer *)
(*     phase       life-cycle guard of the action false                     *)
(*     visible     environment assumption VisibleAlive false                *)
(*     selfref     SelfRefIffOpen / OnlySelf / Unreferenced false           *)
(* Verdicts are total: one line per trace, ACCEPT or REJECT with the set of *)
(* <<event index, clause>> pairs (first 6).                                  *)
(***************************************************************************)
EXTENDS ProvideRefs, TLC, Json, IOUtils, Sequences, SequencesExt

Traces == ndJsonDeserialize(IOEnv.IN)

VARIABLES tid, l, bad
trVars == <<cache, refs, allIds, err, phase, tid, l, bad>>

Events == Traces[tid].events
Ev == Events[l]

SeqRange(s) == {s[i] : i \in 1..Len(s)}
LoggedRefs(e) == [k \in SeqRange(e.rkeys) |->
                    SeqRange(e.rvals[CHOOSE i \in 1..Len(e.rkeys) : e.rkeys[i] = k])]
\* e.snap = FALSE: no state was logged with the event (set / inject are not critical sections of the library; under
\* the fine-grained schedules of C07 they may happen while another thread is INSIDE a critical section, whose
\* intermediate state must not be taken for a state of the machine): the state then follows the specification.
Snapshot(e) == St(SeqRange(e.cache), LoggedRefs(e), SeqRange(e.all), FALSE)

Fresh == /\ cache = {} /\ refs = [q \in {} |-> {}] /\ allIds = {} /\ err = FALSE
         /\ phase = [p \in Pid |-> "new"]

TrInit == Fresh /\ tid = 1 /\ l = 1 /\ bad = {}

\* what the specification says the call does to the state, and whether its guard holds
Expected(e) ==
  CASE e.op = "set"    -> St(cache \cup {e.id}, refs, allIds, err)
    [] e.op = "enter"  -> Enter(Cur, e.id)
    [] e.op = "reg"    -> Register(Cur, e.id, SeqRange(e.ps))
    [] e.op = "unreg"  -> Unreg(Cur, e.id)
    [] e.op = "exit"   -> Exit(Cur, e.id)
    [] OTHER           -> Cur

GuardOK(e) ==
  CASE e.op = "set"    -> e.id \in Pid /\ phase[e.id] = "new"
    [] e.op = "enter"  -> e.id \in Pid /\ phase[e.id] = "set"
    [] e.op = "exit"   -> e.id \in Pid /\ phase[e.id] = "open"
    [] e.op = "unreg"  -> e.id \in Rid
    [] e.op = "reg"    -> e.id \in Rid
    [] OTHER           -> TRUE

NextPhase(e) ==
  IF e.id \in Pid /\ e.op \in {"set", "enter", "exit"}
  THEN [phase EXCEPT ![e.id] = CASE e.op = "set" -> "set" [] e.op = "enter" -> "open" [] OTHER -> "closed"]
  ELSE phase

SameState(a, b) == a.cache = b.cache /\ a.refs = b.refs /\ a.allIds = b.allIds

\* clauses of event e, evaluated with the state BEFORE (unprimed) and the logged state after
Logged(e) == IF e.snap THEN Snapshot(e) ELSE Expected(e)

Clauses(e) ==
  LET x  == Expected(e)
      lg == Logged(e)
      ph == NextPhase(e)
      wf == \A q \in DOMAIN lg.refs : q \in lg.cache /\ lg.refs[q] # {} /\ lg.refs[q] \subseteq lg.allIds
      self == /\ \A p \in Pid : (p \in lg.allIds <=> ph[p] = "open")
                                /\ (ph[p] = "open" => p \in DOMAIN lg.refs /\ p \in lg.refs[p])
              /\ \A q \in DOMAIN lg.refs : lg.refs[q] \cap Pid \subseteq {q}
              /\ \A p \in lg.cache \ DOMAIN lg.refs : p \in Pid /\ ph[p] = "set"
  IN  {c \in {"raised", "inject", "wellformed", "residue", "post", "phase", "visible", "selfref"} :
        CASE c = "raised"     -> e.raised # "" /\ e.op # "inject"
          [] c = "inject"     -> e.op = "inject" /\ ~e.found
          [] c = "wellformed" -> ~wf
          [] c = "residue"    -> e.op = "end" /\ (lg.cache # {} \/ DOMAIN lg.refs # {} \/ lg.allIds # {})
          [] c = "post"       -> e.snap /\ e.raised = "" /\ (~SameState(x, lg) \/ x.err)
          [] c = "phase"      -> ~GuardOK(e)
          [] c = "visible"    -> (e.op = "reg" /\ ~(SeqRange(e.ps) \subseteq Pid /\ VisibleAlive(SeqRange(e.ps) \cap Pid))) \/ (e.op = "inject" /\ e.found # (e.id \in cache))
          [] c = "selfref"    -> ~self}

Step == /\ tid <= Len(Traces) /\ l <= Len(Events)
        /\ LET e == Ev lg == Logged(Ev) IN
           /\ bad' = bad \cup {<<l, c>> : c \in Clauses(e)}
           /\ cache' = lg.cache /\ refs' = lg.refs /\ allIds' = lg.allIds /\ err' = FALSE
           /\ phase' = NextPhase(e)
        /\ l' = l + 1 /\ UNCHANGED tid

First(S, n) == IF Cardinality(S) <= n THEN S
               ELSE LET m == CHOOSE k \in 1..Len(Events) : Cardinality({b \in S : b[1] <= k}) >= n IN {b \in S : b[1] <= m}

Done == /\ tid <= Len(Traces) /\ l > Len(Events)
        /\ IF bad = {} THEN PrintT(<<"ACCEPT", Traces[tid].id>>)
           ELSE PrintT(<<"REJECT", Traces[tid].id, Cardinality(bad), First(bad, 6)>>)
        /\ tid' = tid + 1 /\ l' = 1 /\ bad' = {}
        /\ cache' = {} /\ refs' = [q \in {} |-> {}] /\ allIds' = {} /\ err' = FALSE
        /\ phase' = [p \in Pid |-> "new"]

TrNext == Step \/ Done
TrSpec == TrInit /\ [][TrNext]_trVars
=============================================================================
