------------------------------ MODULE MC_C13A ------------------------------
(***************************************************************************)
(* Bounded instances of HtmlAttrs.  Cases are grown entry by entry, every  *)
(* reachable state IS a case; TLC checks the specification's own laws on   *)
(* each and exports it with Expected(c) (spec -> code replay).  Results    *)
(* that do not conform go back to TLC (Trace_C13), which decides whether a *)
(* named deviation predicts them.                                          *)
(*   Profile "values": one name, every combination of default / attrs /    *)
(*       <= MaxKw keywords over the full value representatives.            *)
(*   Profile "forms":  NNames names, small values, every way of writing    *)
(*       attrs / defaults / keywords in the tag, <= MaxEntries entries.    *)
(*   Profile "names":  attribute names with characters HTML cannot carry.  *)
(*   Profile "repeat": every sequence of <= MaxKw keywords over 3 names    *)
(*       (value = position), on top of every subset of attrs.              *)
(*   Profile "aggrep": attrs / defaults written as aggregate keywords      *)
(*       (attrs:k=v, defaults:k=v) where the same prefix:k is given up to  *)
(*       three times - each as a variable, a literal or contributed by a   *)
(*       ...spread - next to the other dictionary in another form and a    *)
(*       plain keyword.  avias / dvias: how each aggregate entry is given. *)
(***************************************************************************)
EXTENDS HtmlAttrs, TLC, Json, IOUtils

CONSTANTS Profile, MaxKw, MaxEntries, NNames, Split, Splits

S(x)    == [t |-> "str", s |-> x]
Safe(x) == [t |-> "safe", s |-> x]
Num(x)  == [t |-> "num", s |-> x]
T == [t |-> "true", s |-> ""]
F == [t |-> "false", s |-> ""]
N == [t |-> "none", s |-> ""]
E(n, v) == [n |-> n, v |-> v]

\* quotes, angle brackets, ampersands (also a pre-escaped reference), whitespace, non-ASCII,
\* the empty string, safe strings, numbers (0 is not False), bool, None
ValsFull  == {S("a"), S("b c"), S(""), S("\"><x y=\"1"), S("'&&lt;"), S("é= /ü"), Safe("d&amp;e"),
              Num("5"), Num("0"), Num("1.5"), T, F, N}
KwFull    == {S("k"), S("<\"&"), S(""), Safe("s&gt;"), Num("7"), T, N}
ValsSmall == {S("a b"), S("\"<&"), N}
KwSmall   == {S("k"), S("'>\"")}

AllNames == <<"class", "@click", "data-id">>
NameSeq == CASE Profile = "values" -> <<"class">>
             [] Profile = "forms"  -> SubSeq(AllNames, 1, NNames)
             [] Profile = "names"  -> <<"id">>
             [] Profile = "repeat" -> AllNames
             [] Profile = "aggrep" -> SubSeq(AllNames, 1, NNames)
NameIdx(n) == CHOOSE i \in 1..Len(NameSeq) : NameSeq[i] = n
\* names that cannot / need not come back letter for letter, and unusual but legal ones
OddNames == {"x y", "a=b", "a/b", "a\tb", "a\nb", "on click=alert(1) x", "", " ",
             "a<b", "a\"b", "a'b", "a&b", "a>b", "x y>z",
             ":cls", "@a.b", "v-on:a", "x_1", "é"}

DVals == CASE Profile = "values" -> ValsFull [] Profile = "forms" -> ValsSmall
           [] Profile = "repeat" -> {S("base")} [] Profile = "aggrep" -> {S("u v"), N}
           [] OTHER -> {S("v"), S("\"q"), T, N}
KVals == CASE Profile = "values" -> KwFull [] Profile = "forms" -> KwSmall [] OTHER -> {S("k")}

\* fa / fd: how attrs / defaults are written.  "pos" positional, "kw" attrs=var before the other
\* keywords, "kwlast" after them, "agg" attrs:name=var per entry, "spread" inside a ...dict,
\* "posnone" positional variable holding None, "absent" not written (then no entries).
FormPairsAll ==
  IF Profile = "forms"
  THEN << <<"pos", "pos">>, <<"pos", "absent">>, <<"pos", "kw">>, <<"pos", "agg">>, <<"kw", "kw">>,
          <<"kwlast", "kw">>, <<"kw", "kwlast">>, <<"absent", "kw">>, <<"agg", "agg">>, <<"agg", "kw">>,
          <<"kw", "agg">>, <<"spread", "spread">>, <<"spread", "kw">>, <<"posnone", "pos">>,
          <<"absent", "absent">>, <<"absent", "agg">> >>
  ELSE IF Profile = "names" THEN << <<"pos", "pos">>, <<"kw", "kw">>, <<"spread", "spread">> >>
  ELSE IF Profile = "repeat" THEN << <<"pos", "absent">>, <<"kwlast", "absent">> >>
  ELSE IF Profile = "aggrep" THEN << <<"agg", "agg">>, <<"agg", "kw">>, <<"kw", "agg">>, <<"pos", "agg">> >>
  ELSE << <<"pos", "pos">> >>
\* an instance may be split over several TLC runs: run Split of Splits takes every Splits-th pair
FormPairs == {FormPairsAll[i] : i \in {j \in 1..Len(FormPairsAll) : j % Splits = Split}}
Vias == IF Profile = "forms" THEN {"var", "lit", "spread"} ELSE {"var"}
\* a keyword value may be written as a template literal only if that does not change its meaning
LitOk(v) == v.t \in {"num", "true", "none"} \/ (v.t = "str" /\ v.s # "" /\ ~HasAny(v.s, Special \cup {"{", "%", "\\"}))

\* profile "aggrep": the value of the i-th aggregate entry of a dictionary (plain text / text that needs
\* escaping or None - joining with None is a zone / a number) and how it may be given
AggVals(i) == CASE i = 1 -> {S("a b")} [] i = 2 -> {S("\"<&"), N} [] OTHER -> {Num("7")}
AggVias == {"var", "lit", "spread"}
MaxRepeat == 3

VARIABLES c, fa, fd, vias, avias, dvias
mcVars == <<c, fa, fd, vias, avias, dvias>>

Size == Len(c.defaults) + Len(c.attrs) + Len(c.kws)
LastIdx(d) == IF d = <<>> THEN 0 ELSE NameIdx(d[Len(d)].n)

MCInit == /\ c = [defaults |-> <<>>, attrs |-> <<>>, kws |-> <<>>]
          /\ vias = <<>> /\ avias = <<>> /\ dvias = <<>>
          /\ \E p \in FormPairs : fa = p[1] /\ fd = p[2]

\* a dictionary written as aggregate keywords in profile "aggrep": any name again (a repeated prefix:name)
AggRep(f) == Profile = "aggrep" /\ f = "agg"
AddDefault == /\ fd # "absent" /\ c.attrs = <<>> /\ c.kws = <<>> /\ Size < MaxEntries
              /\ IF AggRep(fd)
                 THEN /\ Len(c.defaults) < MaxRepeat
                      /\ \E n \in SeqRange(NameSeq), v \in AggVals(Len(c.defaults) + 1), via \in AggVias :
                           /\ via = "lit" => LitOk(v)
                           /\ c' = [c EXCEPT !.defaults = Append(@, E(n, v))]
                           /\ dvias' = Append(dvias, via)
                 ELSE /\ \E n \in SeqRange(NameSeq), v \in DVals :
                           /\ NameIdx(n) > LastIdx(c.defaults)
                           /\ c' = [c EXCEPT !.defaults = Append(@, E(n, v))]
                      /\ UNCHANGED dvias
              /\ UNCHANGED <<fa, fd, vias, avias>>
AddAttr == /\ fa \notin {"absent", "posnone"} /\ c.kws = <<>> /\ Size < MaxEntries
           /\ IF AggRep(fa)
              THEN /\ Len(c.attrs) < MaxRepeat
                   /\ \E n \in SeqRange(NameSeq), v \in AggVals(Len(c.attrs) + 1), via \in AggVias :
                        /\ via = "lit" => LitOk(v)
                        /\ c' = [c EXCEPT !.attrs = Append(@, E(n, v))]
                        /\ avias' = Append(avias, via)
              ELSE /\ \E n \in SeqRange(NameSeq), v \in DVals :
                        /\ NameIdx(n) > LastIdx(c.attrs)
                        /\ c' = [c EXCEPT !.attrs = Append(@, E(n, v))]
                   /\ UNCHANGED avias
           /\ UNCHANGED <<fa, fd, vias, dvias>>
AddKw == /\ Len(c.kws) < MaxKw /\ Size < MaxEntries
         /\ \E n \in SeqRange(NameSeq), via \in Vias :
            \E v \in (IF Profile = "repeat" THEN {S("k" \o ToString(Len(c.kws) + 1))} ELSE KVals) :
              /\ via = "lit" => LitOk(v)
              /\ c' = [c EXCEPT !.kws = Append(@, E(n, v))]
              /\ vias' = Append(vias, via)
         /\ UNCHANGED <<fa, fd, avias, dvias>>
\* profile "names": one odd name in attrs or defaults (or both: override), next to an ordinary entry
AddOdd == /\ Profile = "names" /\ c.attrs = <<>> /\ c.kws = <<>>
          /\ \E n \in OddNames, v \in DVals, both \in BOOLEAN, where \in {"attrs", "defaults", "override"} :
               c' = [defaults |-> (IF where # "attrs" THEN <<E(n, IF where = "override" THEN S("d") ELSE v)>> ELSE <<>>)
                                    \o (IF both THEN <<E("id", S("i"))>> ELSE <<>>),
                     attrs |-> (IF where # "defaults" THEN <<E(n, v)>> ELSE <<>>),
                     kws |-> <<>>]
          /\ UNCHANGED <<fa, fd, vias, avias, dvias>>

MCNext == IF Profile = "names" THEN AddOdd \/ (c.attrs # <<>> /\ c.defaults # <<>> /\ AddKw)
          ELSE AddDefault \/ AddAttr \/ AddKw
MCSpec == MCInit /\ [][MCNext]_mcVars

(* ---- laws of the specification ----------------------------------------- *)
\* evaluated once: NameClassDef (three runs of the tokenizer model) for every name of the instance
NameClassTable == [n \in OddNames \cup SeqRange(AllNames) \cup {"id"} |-> NameClassDef(n)]
NameClassCached(n) == NameClassTable[n]
\* the value representatives escape safely: no quote / angle bracket survives, a parser decodes them back
ASSUME ValueSetsEscapeSafely ==
  \A v \in ValsFull \cup KwFull \cup ValsSmall \cup KwSmall \cup {S(n) : n \in OddNames} : EscapeIsSafe(v.s)
\* the classes the OddNames are meant to exercise really are what the tokenizer model derives
ASSUME LawNameClasses ==
  /\ \A n \in {"x y", "a=b", "a/b", "a\tb", "a\nb", "", " ", "x y>z", "on click=alert(1) x"} : NameClassDef(n) = "unrep"
  /\ \A n \in {"a<b", "a\"b", "a'b", "a&b", "a>b"} : NameClassDef(n) = "weak"
  /\ \A n \in {":cls", "@a.b", "v-on:a", "x_1", "class", "@click", "data-id", "é"} : NameClassDef(n) = "exact"
\* checked on every case
LawOverride == OverrideLaw(c)
LawAppend == AppendLaw(c)

(* ---- export ------------------------------------------------------------- *)
SetToSeq(s) == LET RECURSIVE R(_)
                   R(x) == IF x = {} THEN <<>> ELSE LET e == CHOOSE e \in x : TRUE IN <<e>> \o R(x \ {e})
               IN R(s)
ItemJ(it) == [n |-> it.n, cls |-> it.cls, kind |-> it.kind, vals |-> SetToSeq(it.vals)]
\* one evaluation of Items(c) per case: the round-trip law, then the export
CaseOK ==
  LET its == Items(c) IN
  /\ RoundTripI(its)
  /\ Serialize(ToJson([profile |-> Profile, defaults |-> c.defaults, attrs |-> c.attrs, kws |-> c.kws,
                       vias |-> vias, fa |-> fa, fd |-> fd, avias |-> avias, dvias |-> dvias,
                       items |-> [i \in 1..Len(its) |-> ItemJ(its[i])],
                       err |-> ErrOk(its)]) \o "\n",
               IOEnv.OUT, [format |-> "TXT", charset |-> "UTF-8",
                           openOptions |-> <<"WRITE", "CREATE", "APPEND">>]).exitValue = 0
=============================================================================
