------------------------------ MODULE Trace_X01 ------------------------------
(***************************************************************************)
(* Trace validation (code -> spec) for X01.  IOEnv.IN names an ndjson file; *)
(* every line records one call of the random driver on the real library:   *)
(*   op = "parse"     fmt, toks                    obs = [k, cls, name, rest]*)
(*   op = "tags"      fmt, name                    obs_start, obs_end =     *)
(*                                                  [k, cls, v]            *)
(*   op = "register"  fmt, name                    obs = "ok" | <exception> *)
(*   op = "e2e"       fmt, reg, use                obs = [k, cls, comp,     *)
(*                                                  args, kwargs, body]    *)
(* w: the non-ASCII characters of the record that the Unicode database      *)
(* classifies as letters / digits (TagFormatter!IsWordChar).                *)
(* A record is accepted when what was observed is an outcome the            *)
(* specification admits for the recorded input.  One ACCEPT / REJECT line   *)
(* per record; a REJECT names the failing clauses and a DEV line follows     *)
(* with the named deviation whose prediction equals the observation (or     *)
(* "none").                                                                 *)
(***************************************************************************)
EXTENDS TagFormatter, Json, IOUtils

Traces == ndJsonDeserialize(IOEnv.IN)
VARIABLE tid

Range(s) == {s[i] : i \in 1..Len(s)}

ParseObs(o) == IF o.k = "ok" THEN Ok(o.name, o.rest)
               ELSE IF o.cls = "TemplateSyntaxError" THEN Tse
               ELSE [k |-> "exc:" \o o.cls, name |-> <<>>, rest |-> <<>>]

Match(e, o) == /\ e.k = o.k /\ e.cls = o.cls /\ e.comp = o.comp /\ e.args = o.args /\ e.body = o.body
               /\ Len(e.kwargs) = Len(o.kwargs) /\ Range(e.kwargs) = Range(o.kwargs)

UseOK(f, u) == /\ Len(u.word) > 0 /\ \A i \in 1..Len(u.word) : u.word[i] \notin WS \cup Quotes
               /\ WellFormedToks(u.toks) /\ E2EArgsOK(f, u)

Failing(r) ==
  LET W == Range(r.w) IN
  CASE r.op = "parse" ->
         IF ~(Len(r.toks) >= 1 /\ WellFormedToks(r.toks)) THEN {"precondition"}
         ELSE IF ParseObs(r.obs) \in Parse(r.fmt, r.toks) THEN {} ELSE {"parse_outcome"}
    [] r.op = "tags" ->
         (IF r.obs_start = IStart(r.fmt, r.name, W) THEN {} ELSE {"start_tag"})
         \cup (IF r.obs_end = IEnd(r.fmt, r.name, W) THEN {} ELSE {"end_tag"})
    [] r.op = "register" ->
         IF r.obs \in RegisterOutcomes(r.fmt, r.name, W) THEN {} ELSE {"register_outcome"}
    [] r.op = "e2e" ->
         IF ~UseOK(r.fmt, r.use) THEN {"precondition"}
         ELSE IF \E e \in E2E(r.fmt, Range(r.reg), r.use, W) : Match(e, r.obs) THEN {} ELSE {"e2e_outcome"}

\* the named deviation that predicts exactly the observation (only looked at for rejected records)
Dev(r) ==
  LET W == Range(r.w) IN
  CASE r.op = "parse" ->
         LET d == DevParse(r.fmt, r.toks) IN IF d.name # NoDev /\ ParseObs(r.obs) = d.out THEN d.name ELSE NoDev
    [] r.op = "tags" ->
         LET ds == DevTag(StartTag(r.fmt, r.name), W)  de == DevTag(EndTag(r.fmt, r.name), W)
             sok == r.obs_start = IStart(r.fmt, r.name, W)  eok == r.obs_end = IEnd(r.fmt, r.name, W) IN
         IF /\ sok \/ (ds.name # NoDev /\ r.obs_start = ds.out)
            /\ eok \/ (de.name # NoDev /\ r.obs_end = de.out)
         THEN (IF ~sok THEN ds.name ELSE de.name) ELSE NoDev
    [] r.op = "register" ->
         LET ds == DevTag(StartTag(r.fmt, r.name), W) IN
         IF ds.name # NoDev /\ r.obs = "ok" THEN ds.name ELSE NoDev
    [] r.op = "e2e" ->
         LET d == DevE2E(r.fmt, Range(r.reg), r.use, W) IN
         IF d.name # NoDev /\ Match(d.out, r.obs) THEN d.name ELSE NoDev

TrInit == tid = 1
TrNext == /\ tid <= Len(Traces)
          /\ LET r == Traces[tid]  bad == Failing(Traces[tid]) IN
             IF bad = {} THEN PrintT(<<"ACCEPT", r.id>>)
             \* two short lines: TLC wraps printed values that are wider than 80 columns
             ELSE PrintT(<<"REJECT", r.id, 1, bad>>) /\ PrintT(<<"DEV", r.id, Dev(r)>>)
          /\ tid' = tid + 1
TrSpec == TrInit /\ [][TrNext]_tid
=============================================================================
