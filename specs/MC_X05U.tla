------------------------------- MODULE MC_X05U ------------------------------
(***************************************************************************)
(* Bounded instances of the upgradecomponent part of MgmtCommands.         *)
(*                                                                         *)
(* CSpec (contents): every template content of at most FullLen symbols     *)
(* over the alphabet Alpha, and of at most CoreLen symbols over Core       *)
(* (symbol code = 10 * index of the kind + presentation).  Every           *)
(* Determined content is exported with the documented rewrite, with what   *)
(* each set of named deviations predicts instead, and the same for a       *)
(* second run on the rewritten content, and with the contents admitted     *)
(* for a *.html and a *.py file below the searched directory.              *)
(* UpgradeTheorems is checked on every content.                            *)
(*                                                                         *)
(* TSpec (trees): every tree of at most MaxFiles files over the locations, *)
(* extensions and two contents below (plus an image that is not text in    *)
(* every location), under every invocation (--path                         *)
(* given for lib / proj/components / proj/ui or omitted, COMPONENTS.dirs    *)
(* default or custom); exported with the set of admitted contents of each  *)
(* file after the command.                                                 *)
(***************************************************************************)
EXTENDS MgmtCommands, TLC, Json, IOUtils

CONSTANTS Alpha, Core, FullLen, CoreLen,          \* CSpec
          LocIdx, ExtIdx, MaxFiles                \* TSpec

VARIABLES s, tree, u
uVars == <<s, tree, u>>

Kinds == <<"T", "OO", "OC", "C", "E", "S">>
Decode(c) == Sym(Kinds[c \div 10], c % 10)

(* ---- contents ---------------------------------------------------------- *)
CInit == s = <<>> /\ tree = {} /\ u = 0
Append1(c) == /\ \/ Len(s) < FullLen
                 \/ Len(s) < CoreLen /\ c \in Core /\ \A i \in 1..Len(s) : s[i] \in {Decode(x) : x \in Core}
              /\ LET t == Append(s, Decode(c)) IN        \* an end tag without opener can never become Determined
                   /\ Count(t, "OO", Len(t)) >= Count(t, "OC", Len(t))
                   /\ Count(t, "C", Len(t)) >= Count(t, "E", Len(t))
              /\ s' = Append(s, Decode(c)) /\ UNCHANGED <<tree, u>>
CNext == \E c \in Alpha : Append1(c)
CSpec == CInit /\ [][CNext]_uVars

CTheorems == UpgradeTheorems(s)
CExport ==
  \/ ~Determined(s)
  \/ Serialize(ToJson([s |-> s, exp |-> Upgrade(s), devs |-> DevAlts(s), devs2 |-> DevAlts(Upgrade(s)),
                       \* the contents admitted after `upgradecomponent --path lib` for lib/tpl/f<ext> holding s
                       adm |-> [e \in {".html", ".py"} |->
                                  {t.c : t \in AdmittedAfter(<<"lib", "tpl", "f" \o e>>, User(s),
                                                             [usepath |-> TRUE, w |-> "P", cdirs |-> "default"])}]
                      ]) \o "\n",
               IOEnv.OUT, [format |-> "TXT", charset |-> "UTF-8",
                           openOptions |-> <<"WRITE", "CREATE", "APPEND">>]).exitValue = 0

(* ---- trees ------------------------------------------------------------- *)
LocDirs == << <<"lib">>, <<"lib", "sub", "deep">>, <<"proj", "components">>, <<"proj", "components", "card">>,
              <<"proj", "ui", "x">>, <<"proj", "templates">>, <<"proj", "other">>, <<"outside">>, <<"outside", "t">> >>
Exts == << ".html", ".py", ".txt", ".htm", ".html.bak", ".HTML" >>
\* an old-syntax block around an old inline tag; a file without any component tag
TreeContents == << <<Sym("OO", 2), Sym("T", 1), Sym("C", 1), Sym("OC", 1), Sym("T", 3)>>, <<Sym("T", 1), Sym("T", 4)>> >>
FileOf(l, e, k) == [path |-> LocDirs[l] \o <<(IF k = 1 THEN "old" ELSE "plain") \o Exts[e]>>, c |-> TreeContents[k]]
\* component directories also hold static files (images ...): a file that is not text
Binary(l) == [path |-> LocDirs[l] \o <<"logo.png">>, c |-> <<Sym("B", 1)>>]
Pool == {FileOf(l, e, k) : l \in LocIdx, e \in ExtIdx, k \in 1..2} \cup {Binary(l) : l \in LocIdx}
UInvs == [usepath : {TRUE}, w : {"P", "B", "D"}, cdirs : {"default"}]
         \cup [usepath : {FALSE}, w : {"B"}, cdirs : {"default", "custom"}]

TInit == s = <<>> /\ tree = {} /\ u \in UInvs
Add(f) == /\ f \notin tree /\ Cardinality(tree) < MaxFiles
          /\ tree' = tree \cup {f} /\ UNCHANGED <<s, u>>
TNext == \E f \in Pool : Add(f)
TSpec == TInit /\ [][TNext]_uVars

TTheorems ==
  \A f \in tree :
    LET adm == AdmittedAfter(f.path, User(f.c), u) IN
    /\ adm # {} /\ \A t \in adm : t.c \in {f.c, Upgrade(f.c)}
    /\ (u.usepath /\ ~IsPrefix(WhereDir(u.w), f.path)) => adm = {User(f.c)}        \* [U2] only the given path
    /\ ~IsPrefix(Base, f.path) /\ ~u.usepath => adm = {User(f.c)}
TExport ==
  Serialize(ToJson([u |-> u,
                    files |-> {[path |-> f.path, c |-> f.c,
                                admitted |-> {t.c : t \in AdmittedAfter(f.path, User(f.c), u)}] : f \in tree}]) \o "\n",
            IOEnv.OUT, [format |-> "TXT", charset |-> "UTF-8",
                        openOptions |-> <<"WRITE", "CREATE", "APPEND">>]).exitValue = 0
=============================================================================
