---------------------------- MODULE MediaInherit ----------------------------
(***************************************************************************)
(* C16 - what django-components promises about the assets of a component   *)
(* class hierarchy (layer A: written from the property text and            *)
(* docs/concepts/fundamentals/{defining_js_css_html_files,                  *)
(* subclassing_components}.md, not from the code).                         *)
(*                                                                         *)
(* A case K is a record                                                    *)
(*   cls : sequence of class records; class i may only name classes j < i; *)
(*         class 0 is the library root `Component` (no Media, no assets)   *)
(*   rel : sequence of file ids that exist next to the component module    *)
(*         (the docs: such a path "is re-written" relative to a component  *)
(*         directory - the file the class declares is the converted path)  *)
(* A class record is                                                       *)
(*   plain : TRUE for a mixin that is not a Component (docs: "other classes *)
(*           that have a nested Media class"); it has only plain bases and *)
(*           no assets; a Component class lists its bases and gets         *)
(*           `Component` appended when none of them is a Component         *)
(*   bases : sequence of earlier classes                                   *)
(*   media : "none" (no nested Media) | "null" (Media = None) | "def"      *)
(*   lists : [js, all, print] own declared lists (Media.js, Media.css[m])  *)
(*   ext   : "true" | "false" | "list" ;  extl : the listed classes         *)
(*   attr  : [template, js, css] each "none" | "inline" | "file" | "both", *)
(*           or a BLANK definition: "inline-empty" / "file-empty" (the     *)
(*           empty string / an empty file), "inline-ws" / "file-ws"        *)
(*           (whitespace only), "both-empty" (`x = ""` and `x_file`).      *)
(*           A blank text is a DEFINED value (the docs' way of switching   *)
(*           an inherited script off); only an attribute that is not set   *)
(*           (None) is "not defined".                                      *)
(***************************************************************************)
EXTENDS Naturals, Sequences, FiniteSets, TLC

Types == {"js", "all", "print"}          \* JS, and CSS per media type
Pairs == {"template", "js", "css"}       \* template/template_file, js/js_file, css/css_file
RelOffset == 10                          \* id of the converted path of file f is f + RelOffset
OBJ == 100                               \* Python's `object` (class 0, Component, derives from it)

Range(s) == {s[i] : i \in 1..Len(s)}
Min(S) == CHOOSE x \in S : \A y \in S : x <= y
N(K) == Len(K.cls)

(* ---- Media: which files, in which order --------------------------------- *)
Res(K, f) == IF f \in Range(K.rel) THEN f + RelOffset ELSE f

\* The list class c declares for type t (after path conversion); empty without own Media.
Real(K, c) == c \in 1..N(K)               \* a class of the case (not Component / object)
Plain(K, c) == Real(K, c) /\ K.cls[c].plain
Decl(K, c, t) ==
  IF ~Real(K, c) \/ K.cls[c].media # "def" THEN <<>>
  ELSE [i \in 1..Len(K.cls[c].lists[t]) |-> Res(K, K.cls[c].lists[t][i])]

\* The bases selected by the class's own Media.extend: all bases / none / the listed
\* classes.  A class without own Media has no `extend`, i.e. the default: all bases.
Selected(K, c) ==
  IF ~Real(K, c) THEN <<>>
  ELSE LET r == K.cls[c] IN
       IF r.media # "def" THEN r.bases
       ELSE CASE r.ext = "true"  -> r.bases
              [] r.ext = "false" -> <<>>
              [] r.ext = "list"  -> r.extl

RECURSIVE Files(_, _, _)
Files(K, c, t) == Range(Decl(K, c, t)) \cup UNION {Files(K, b, t) : b \in Range(Selected(K, c))}

RECURSIVE Contrib(_, _)        \* the classes whose declared lists contribute to c
Contrib(K, c) == {c} \cup UNION {Contrib(K, b) : b \in Range(Selected(K, c))}

\* u must precede v: some contributing class declares u before v in one list.
Prec(K, c, t) ==
  UNION {LET L == Decl(K, k, t) IN
         UNION {{<<L[i], L[j]>> : j \in (i + 1)..Len(L)} : i \in 1..Len(L)}
         : k \in Contrib(K, c)}

RECURSIVE Closure(_, _)
Closure(R, fuel) ==
  LET R2 == R \cup {<<pq[1][1], pq[2][2]>> : pq \in {x \in R \X R : x[1][2] = x[2][1]}} IN
  IF R2 = R \/ fuel = 0 THEN R ELSE Closure(R2, fuel - 1)

\* The declared lists are mutually consistent iff "must precede" has no cycle.
Consistent(K, c, t) ==
  LET T == Closure(Prec(K, c, t), Cardinality(Files(K, c, t)) + 1) IN
  \A f \in Files(K, c, t) : <<f, f>> \notin T

Pos(s, x) == Min({i \in 1..Len(s) : s[i] = x})

\* What the property determines about an observed list `obs` of Component.media for type t.
FilesOK(obs, K, c, t) == Range(obs) = Files(K, c, t)                \* exactly the union
OnceOK(obs)           == Cardinality(Range(obs)) = Len(obs)           \* each file once
OrderOK(obs, K, c, t) ==                                              \* a linear extension of every
  Consistent(K, c, t) =>                                              \* declared list, when one exists
    \A p \in Prec(K, c, t) : (p[1] \in Range(obs) /\ p[2] \in Range(obs)) => Pos(obs, p[1]) < Pos(obs, p[2])
MediaOK(obs, K, c, t) == FilesOK(obs, K, c, t) /\ OnceOK(obs) /\ OrderOK(obs, K, c, t)

(* ---- C3 linearisation (Python's MRO), transcribed -------------------------- *)
BasesOf(K, c) ==          \* cls.__bases__
  IF c = OBJ THEN <<>>
  ELSE IF c = 0 THEN <<OBJ>>
  ELSE LET bs == K.cls[c].bases IN
       IF K.cls[c].plain THEN (IF bs = <<>> THEN <<OBJ>> ELSE bs)
       ELSE IF \E i \in 1..Len(bs) : ~K.cls[bs[i]].plain THEN bs ELSE Append(bs, 0)

RECURSIVE C3Merge(_, _, _)
C3Merge(lists, acc, fuel) ==
  LET ne == SelectSeq(lists, LAMBDA l : l # <<>>) IN
  IF ne = <<>> THEN [ok |-> TRUE, seq |-> acc]
  ELSE IF fuel = 0 THEN [ok |-> FALSE, seq |-> <<>>]
  ELSE LET cands == {i \in 1..Len(ne) : \A j \in 1..Len(ne) : Head(ne[i]) \notin Range(Tail(ne[j]))} IN
       IF cands = {} THEN [ok |-> FALSE, seq |-> <<>>]
       ELSE LET h == Head(ne[Min(cands)]) IN
            C3Merge([j \in 1..Len(ne) |-> IF Head(ne[j]) = h THEN Tail(ne[j]) ELSE ne[j]],
                    Append(acc, h), fuel - 1)

RECURSIVE Mro(_, _)
Mro(K, c) ==
  IF c = OBJ THEN [ok |-> TRUE, seq |-> <<OBJ>>]
  ELSE LET bs == BasesOf(K, c)
           ms == [i \in 1..Len(bs) |-> Mro(K, bs[i])] IN
       IF \E i \in 1..Len(bs) : ~ms[i].ok THEN [ok |-> FALSE, seq |-> <<>>]
       ELSE C3Merge([i \in 1..Len(bs) |-> ms[i].seq] \o <<bs>>, <<c>>, N(K) + 3)

(* ---- template / js / css: the pair rule ----------------------------------- *)
Kind(K, c, p) == IF ~Real(K, c) \/ K.cls[c].plain THEN "none" ELSE K.cls[c].attr[p]

\* Which member of the pair a definition sets, and what its text is: ordinary text, the empty string,
\* whitespace only.  Blank or not, the class DEFINES the pair.
InlineKinds == {"inline", "inline-empty", "inline-ws"}
FileKinds   == {"file", "file-empty", "file-ws"}
BothKinds   == {"both", "both-empty"}
Member(k)  == IF k \in InlineKinds THEN "inline" ELSE IF k \in FileKinds THEN "file"
              ELSE IF k \in BothKinds THEN "both" ELSE "none"
Content(k) == CASE k \in {"inline", "file"} -> "text"
                [] k \in {"inline-empty", "file-empty"} -> "empty"
                [] k \in {"inline-ws", "file-ws"} -> "ws"
                [] OTHER -> "none"

\* Defining both members of a pair in one class is rejected (a blank member is a member).
Rejected(K, c) == \E p \in Pairs : Kind(K, c, p) \in BothKinds

\* Outcome of creating class c: Python refuses a hierarchy without a C3 order (TypeError),
\* the library refuses both members of a pair (ImproperlyConfigured).
CreationIn(mro, K, c) == IF ~mro.ok THEN {"typeerror"}
                         ELSE IF Rejected(K, c) THEN {"improperly"} ELSE {"ok"}
Creation(K, c) == CreationIn(Mro(K, c), K, c)
Valid(K) == \A c \in 1..N(K) : Creation(K, c) = {"ok"}

\* The value comes from the nearest class in the MRO that defines either member of the
\* pair: src = that class (0: nobody, the value is None), kind = which member it defined.
\* `C.<p>` is then the inline text / the content of the file, `C.<p>_file` the file or None.
AttrIn(m, K, p) ==            \* m: the MRO of the class
  LET idx == {i \in 1..Len(m) : Kind(K, m[i], p) # "none"} IN
  IF idx = {} THEN [src |-> 0, kind |-> "none"]
  ELSE [src |-> m[Min(idx)], kind |-> Kind(K, m[Min(idx)], p)]
Attr(K, c, p) == AttrIn(Mro(K, c).seq, K, p)
\* What `C.<p>` / `C().<p>` is: [src, kind = the member that was defined, val = its text]: None when nobody
\* defines the pair, else the text of class src - also when that text is blank ("" carries no class identity,
\* so for val = "empty" an observation is compared by val only).
Value(a) == [src |-> a.src, kind |-> Member(a.kind), val |-> Content(a.kind)]
\* Rendering class c (rendered tags): the document is the template of Attr(c, "template") and carries the
\* script of Attr(c, "js") / the style of Attr(c, "css") exactly when that text is not blank - never the
\* script of a class further up the MRO that a nearer (blank) definition overrides.  Code: class and member.
RCode(a) == a.src * 10 + (IF Member(a.kind) = "inline" THEN 1 ELSE 2)
Shipped(a) == IF Content(a.kind) = "text" THEN {RCode(a)} ELSE {}

(* ---- asset files that cannot be loaded: fault, then retry ---------------------- *)
\* miss: the set of <<class, pair>> whose `<pair>_file` does not exist at the moment of an access (files only
\* ever appear during a history, so a file that is missing now has never been loaded).  What an access answers
\* is determined by the hierarchy and by the files as they are NOW - never by earlier (failed) accesses:
\*   * `C.<p>` whose nearest definition is a `<p>_file` that is missing cannot have the content of that file
\*     and must not pretend that nobody defines the pair: it raises (every time, as long as the file is missing);
\*   * any access of a class that has a missing file somewhere in its MRO MAY raise (the property does not say
\*     whether the files of a class are loaded one by one or together) - or answer, then with the regular value;
\*   * every other access answers with the regular value; once all files exist nothing raises any more.
FileMissing(K, c, p, miss) == LET a == Attr(K, c, p) IN Member(a.kind) = "file" /\ <<a.src, p>> \in miss
MustRaise(K, c, a, miss) == a \in Pairs /\ FileMissing(K, c, a, miss)
MayRaise(K, c, miss) == \E m \in miss : m[1] \in Range(Mro(K, c).seq) /\ Member(Kind(K, m[1], m[2])) = "file"

(* ---- the memo machine: first accesses in any order -------------------------- *)
\* Component.media is computed on first access and memoised per class; resolving a class
\* first resolves the selected bases that are not memoised yet, then combines *their memo
\* entries* with the own lists.  OrderIndependent says that whatever has been accessed
\* before, an access returns the value determined by the hierarchy alone.
VARIABLES kase, memo, ret
miVars == <<kase, memo, ret>>

NoRet == [c |-> 0, a |-> "none", via |-> "none", media |-> <<>>, attr |-> <<>>]
MediaVal(K, c) == [t \in Types |-> Files(K, c, t)]

RECURSIVE Fill(_, _, _)
RECURSIVE FillSeq(_, _, _, _)
FillSeq(K, m, s, i) == IF i > Len(s) THEN m ELSE FillSeq(K, Fill(K, m, s[i]), s, i + 1)
Fill(K, m, c) ==
  IF c \in DOMAIN m THEN m
  ELSE LET sel == Selected(K, c)
           m2 == FillSeq(K, m, sel, 1) IN
       m2 @@ (c :> [t \in Types |-> Range(Decl(K, c, t)) \cup UNION {m2[b][t] : b \in Range(sel)}])

AccessMedia(c, via) ==
  /\ memo' = Fill(kase, memo, c)
  /\ ret' = [c |-> c, a |-> "media", via |-> via, media |-> memo'[c], attr |-> <<>>]
  /\ UNCHANGED kase
AccessAttr(c, p, via) ==
  /\ ret' = [c |-> c, a |-> p, via |-> via, media |-> <<>>, attr |-> Attr(kase, c, p)]
  /\ UNCHANGED <<kase, memo>>

\* rendering reads template, js and css (and the media) of the class
AccessRender(c, via) ==
  /\ memo' = Fill(kase, memo, c)
  /\ ret' = [c |-> c, a |-> "render", via |-> via, media |-> <<>>, attr |-> [p \in Pairs |-> Attr(kase, c, p)]]
  /\ UNCHANGED kase

Vias == {"cls", "inst"}
Accessible(K) == {0} \cup {c \in 1..N(K) : ~K.cls[c].plain}      \* the classes that have .media etc.
Access == \E c \in Accessible(kase), via \in Vias :
            AccessMedia(c, via) \/ AccessRender(c, via) \/ \E p \in Pairs : AccessAttr(c, p, via)

OrderIndependent ==
  ret # NoRet =>
    IF ret.a = "media" THEN ret.media = MediaVal(kase, ret.c)
    ELSE IF ret.a = "render" THEN ret.attr = [p \in Pairs |-> Attr(kase, ret.c, p)]
    ELSE ret.attr = Attr(kase, ret.c, ret.a)
MemoSound  == \A k \in DOMAIN memo : memo[k] = MediaVal(kase, k)
MemoClosed == \A k \in DOMAIN memo : Range(Selected(kase, k)) \subseteq DOMAIN memo
=============================================================================
