------------------------------- MODULE MC_X04 -------------------------------
(***************************************************************************)
(* Bounded instances of HttpSurface with JSON export (spec -> code replay). *)
(* Family selects the part of the specification that is enumerated:         *)
(*  "dispatch": every (handlers on View, handlers on Component,             *)
(*              http_method_names, request method, URL arguments) case with  *)
(*              the answer Part 1 expects (and, where the named deviation of *)
(*              the current tree predicts another one, that prediction);     *)
(*  "rtr":      every input combination of render_to_response (Part 2);      *)
(*  "mw":       the state graph of the response pipeline (Part 3): every     *)
(*              initial response of the bounded space, every sequence of at  *)
(*              most MaxDepth layers; one line per distinct transition with  *)
(*              the whole admitted outcome set.                              *)
(***************************************************************************)
EXTENDS HttpSurface, TLC, Json, IOUtils

CONSTANTS Family,
          Ms,          \* dispatch: universe of handler names that may be defined
          Split,       \* dispatch: handlers on View AND Component in one case?
          NameSets,    \* dispatch: the http_method_names settings
          ReqMs,       \* dispatch: request methods
          Kws,         \* dispatch: shapes of the URL arguments
          Ons,         \* dispatch: as_view() called on the "class" / on an "instance"
          MaxDepth,    \* mw: layers per pipeline
          Kinds, Cts, Sts, Cls, Shapes, MarkSeqs,     \* mw: the initial responses
          NC, Assets   \* mw: number of component classes, those with js/css

VARIABLE case
mcVars == <<init, resp, depth, last, pre, seenCdm, case>>

\* cfg files cannot write tuples: MarkSeqs <- MarkSeqsAll / MarkSeqsSmall
MarkSeqsAll == {<<>>, <<1>>, <<1, 2, 1>>, <<3>>, <<2, 3>>}
MarkSeqsSmall == {<<>>, <<1, 2, 1>>}

Zero == [c \in 1..NC |-> 0]
Nowhere == [kind |-> "http", ct |-> "none", st |-> 0, hk |-> TRUE, cl |-> "absent",
            body |-> [shape |-> "text", txt |-> TRUE, marks |-> <<>>, css |-> Zero, js |-> Zero, core |-> 0]]

HandlerPairs == IF Split THEN (SUBSET Ms) \X (SUBSET Ms)
                ELSE ({{}} \X (SUBSET Ms)) \cup ((SUBSET Ms) \X {{}})
DispatchCases ==
  {[fam |-> "dispatch", vd |-> p[1], cd |-> p[2], names |-> n, m |-> m, kw |-> kw, on |-> on] :
     p \in HandlerPairs, n \in NameSets, m \in ReqMs, kw \in Kws, on \in Ons}

RtrCases ==
  {[fam |-> "rtr", i |-> [a |-> a, k |-> k, s |-> s, cx |-> cx, rq |-> rq, ty |-> ty, rc |-> rc, st |-> st,
                          hd |-> hd, pos |-> pos]] :
     a \in {"none", "A1"}, k \in {"none", "K1"}, s \in {"none", "S1"}, cx \in {"none", "dict", "Context"},
     rq \in BOOLEAN, ty \in {"document", "fragment"}, rc \in {"default", "custom"}, st \in {0, 201},
     hd \in BOOLEAN, pos \in BOOLEAN}

\* initial responses: what a view may hand to the stack.  A FileResponse always knows its length, a
\* plain streaming response never carries one; markers only in bodies that can hold them.
InitResponses ==
  {[kind |-> kd, ct |-> ct, st |-> st, hk |-> TRUE, cl |-> cl,
    body |-> [shape |-> sh, txt |-> TRUE, marks |-> mk, css |-> Zero, js |-> Zero, core |-> 0]] :
     kd \in Kinds, ct \in Cts, st \in Sts, cl \in Cls, sh \in Shapes, mk \in MarkSeqs}
InitOK(r) == /\ (r.kind = "file" => r.cl = "ok") /\ (r.kind = "stream" => r.cl = "absent")
             /\ (r.body.shape = "text" => r.body.marks = <<>>)
             /\ (r.kind \in {"stream", "file", "template"} => r.st = 200)

MCInit ==
  CASE Family = "dispatch" -> /\ case \in DispatchCases /\ PipeInit(Nowhere)
    [] Family = "rtr"      -> /\ case \in RtrCases /\ PipeInit(Nowhere)
    [] Family = "mw"       -> /\ case = [fam |-> "mw"] /\ \E r \in {x \in InitResponses : InitOK(x)} : PipeInit(r)

MCNext == /\ Family = "mw" /\ depth < MaxDepth
          /\ \E layer \in Layers : Apply(layer, Assets)
          /\ UNCHANGED case

MCSpec == MCInit /\ [][MCNext]_mcVars

(* ---- theorems, per family ------------------------------------------------ *)
DispatchTheorems ==
  Family = "dispatch" =>
     /\ AllowIsExact(case.vd, case.cd, case.names)
     /\ ViewWins(case.vd, case.cd, case.names, case.m)
     /\ HeadLikeGet(case.vd, case.cd, case.names)
     /\ DevIsNarrow(case.vd, case.cd, case.names, case.m)
     /\ Answer(case.vd, case.cd, case.names, case.m).st \in {200, 405}
MwInvariants ==
  Family = "mw" =>
     /\ StatusAndHeadersKept /\ TextKept /\ OtherUntouched /\ ContentLengthConsistent
     /\ NoMarkersAfterCdm /\ DeliveredExactlyOnce(Assets) /\ ViaIndependent(Assets)
     \* the deviation is narrow: it never explains a step on a response without Content-Length
     /\ (resp.cl = "absent" => \A l \in Layers : DevLayerOutcomes(l, resp, Assets) = {})

(* ---- export --------------------------------------------------------------- *)
Put(row) == Serialize(ToJson(row) \o "\n", IOEnv.OUT,
                      [format |-> "TXT", charset |-> "UTF-8",
                       openOptions |-> <<"WRITE", "CREATE", "APPEND">>]).exitValue = 0

DispatchRow ==
  LET c == case
      a == Answer(c.vd, c.cd, c.names, c.m)
      key == DevKey(c.vd, c.cd, c.names, c.m) IN
  [fam |-> "dispatch", vd |-> c.vd, cd |-> c.cd, names |-> c.names, m |-> c.m, kw |-> c.kw, on |-> c.on,
   exp |-> a, seen |-> Seen(c.m, c.kw, c.on),
   dev |-> [key |-> key, out |-> DevAnswer(c.vd, c.cd, c.names, c.m)]]

RtrRow == [fam |-> "rtr", i |-> case.i, exp |-> RtrExpected(case.i)]

\* one line per distinct (pre, layer, post): Python groups by (pre, layer); adm is the whole set
MwRow ==
  IF last = "view"
  THEN [fam |-> "mw", layer |-> "view", pre |-> pre, post |-> resp, depth |-> depth, adm |-> {}, dev |-> {},
        devkey |-> "", vias |-> Vias]
  ELSE [fam |-> "mw", layer |-> last, pre |-> pre, post |-> resp, depth |-> depth,
        adm |-> LayerOutcomes(last, pre, Assets),
        dev |-> DevLayerOutcomes(last, pre, Assets),
        devkey |-> IF DevLayerOutcomes(last, pre, Assets) # {} THEN DevClKey ELSE "",
        vias |-> Vias]

Export ==
  CASE Family = "dispatch" -> Put(DispatchRow)
    [] Family = "rtr"      -> Put(RtrRow)
    [] Family = "mw"       -> Put(MwRow)
=============================================================================
