----------------------------- MODULE EndTagGuard -----------------------------
(***************************************************************************)
(* Component.js / Component.css are written between <script> and </script>  *)
(* (<style>, </style>).  Content "that would terminate its own element (in  *)
(* any letter case) is refused instead of being emitted" (C13).             *)
(*                                                                         *)
(* Terminates is the declarative reading of the HTML standard: inside a     *)
(* script / style element the only thing that ends the element is "</",     *)
(* the element's own name in any letter case, followed by white space, "/"  *)
(* or ">".  Tokenize is the operational reading (script data / RAWTEXT      *)
(* states of the WHATWG tokenizer, without the "<!--" escaped states, which *)
(* generated content never enters); TLC checks that the two agree on every  *)
(* enumerated content, and ElementText gives the text a browser would take  *)
(* as the element's content.                                                *)
(***************************************************************************)
EXTENDS HtmlText

UpperS == "ABCDEFGHIJKLMNOPQRSTUVWXYZ"
LowerS == "abcdefghijklmnopqrstuvwxyz"
Lower(c) == IF \E i \in 1..26 : Ch(UpperS, i) = c THEN Ch(LowerS, CHOOSE i \in 1..26 : Ch(UpperS, i) = c) ELSE c
Upper(c) == IF \E i \in 1..26 : Ch(LowerS, i) = c THEN Ch(UpperS, CHOOSE i \in 1..26 : Ch(LowerS, i) = c) ELSE c
IsAlpha(c) == \E i \in 1..26 : Ch(UpperS, i) = c \/ Ch(LowerS, i) = c
TagOf(kind) == IF kind = "js" THEN "script" ELSE "style"
EndTagTail == WS \cup {"/", ">"}

\* an end tag of `tag` starts at position i of s
EndsAt(s, i, tag) ==
  /\ i + 2 + Len(tag) <= Len(s)
  /\ Ch(s, i) = "<" /\ Ch(s, i + 1) = "/"
  /\ \A k \in 1..Len(tag) : Lower(Ch(s, i + 1 + k)) = Ch(tag, k)
  /\ Ch(s, i + 2 + Len(tag)) \in EndTagTail
Terminates(s, tag) == \E i \in 1..Len(s) : EndsAt(s, i, tag)
FirstEnd(s, tag) == CHOOSE i \in 1..Len(s) : EndsAt(s, i, tag) /\ \A j \in 1..(i - 1) : ~EndsAt(s, j, tag)
\* what a browser takes as the content of <tag>s...: everything before the first end tag
ElementText(s, tag) == IF Terminates(s, tag) THEN SubSeq(s, 1, FirstEnd(s, tag) - 1) ELSE s

\* operational: position of the "<" of the first appropriate end tag, 0 if there is none
RECURSIVE TData(_, _, _), TLt(_, _, _), TOpen(_, _, _), TName(_, _, _, _, _)
TData(cs, tag, i) == IF i > Len(cs) THEN 0
                     ELSE IF cs[i] = "<" THEN TLt(cs, tag, i + 1) ELSE TData(cs, tag, i + 1)
TLt(cs, tag, i) == IF i > Len(cs) THEN 0
                   ELSE IF cs[i] = "/" THEN TOpen(cs, tag, i + 1) ELSE TData(cs, tag, i)
TOpen(cs, tag, i) == IF i > Len(cs) THEN 0
                     ELSE IF IsAlpha(cs[i]) THEN TName(cs, tag, i, 1, i - 2) ELSE TData(cs, tag, i)
\* k: the next letter of the tag name to match; start: where the "<" was
TName(cs, tag, i, k, start) ==
  IF i > Len(cs) THEN 0
  ELSE IF k > Len(tag)
  THEN IF cs[i] \in EndTagTail THEN start ELSE TData(cs, tag, i)     \* longer name: not the element's end tag
  ELSE IF Lower(cs[i]) = Ch(tag, k) THEN TName(cs, tag, i + 1, k + 1, start)
  ELSE TData(cs, tag, i)
Tokenize(s, tag) == TData(Chars(s), tag, 1)
TokenizerAgrees(s, tag) == Tokenize(s, tag) = (IF Terminates(s, tag) THEN FirstEnd(s, tag) ELSE 0)

(* What may happen to content s of a component of the given kind:           *)
(*   would terminate its element      -> refused (an exception) or absent   *)
(*   contains no "<" at all           -> emitted (intact)                   *)
(*   otherwise (harmless look-alikes) -> either                             *)
GuardAdmitted(kind, s) ==
  IF Terminates(s, TagOf(kind)) THEN {"refused", "absent"}
  ELSE IF ~HasAny(s, {"<"}) THEN {"emitted"}
  ELSE {"refused", "absent", "emitted"}
(* Histories.  A component class is rendered any number of times in one process (a server renders it for *)
(* every request, also after a request that failed).  The property speaks about the CONTENT ("JS/CSS that  *)
(* would terminate its own element is refused instead of being emitted"), so what may happen is the same   *)
(* at every render, whatever happened at earlier renders of this or of other components: GuardAdmitted is  *)
(* a function of (kind, s) alone and is applied to every render of a history.  In particular a content     *)
(* that was refused once may not be emitted by a later render.  A history is a sequence of renders         *)
(* [gkind, s, outcome, rest]; the bounded instance asks for Renders(kind, s) renders of every component.   *)
HistoryAdmitted(h) == \A i \in 1..Len(h) : h[i].outcome \in GuardAdmitted(h[i].gkind, h[i].s)
\* `rest` is the real output from just after the element's start tag to the end of the document:
\* the element must contain exactly s (its own end tag, written by the library, is the first one)
EmittedIntact(kind, s, rest) == ElementText(rest, TagOf(kind)) = s
(* named deviation of the current implementation (KNOWN_FINDINGS): the guard looks for the   *)
(* lower-case text "</script" / "</style" only                                               *)
Contains(s, sub) == \E i \in 1..Len(s) : MatchAt(s, i, sub)
DevCaseSensitive(kind, s) == Terminates(s, TagOf(kind)) /\ ~Contains(s, "</" \o TagOf(kind))
DevGuard(kind, s) == IF DevCaseSensitive(kind, s)
                     THEN [key |-> kind \o "-end-tag-not-lower-case:emitted", outcome |-> "emitted"]
                     ELSE [key |-> "", outcome |-> ""]
=============================================================================
