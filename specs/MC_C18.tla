------------------------------- MODULE MC_C18 -------------------------------
(* Bounded instance of LRUCache; exports every transition of the reachable *)
(* state graph as one JSON line (spec -> code replay).                      *)
EXTENDS LRUCache, TLC, Json, IOUtils

VARIABLES last, pOrder, pVal     \* history: the call just made and the state it was made in
mcVars == <<order, val, ret, last, pOrder, pVal>>

MCInit == LRUInit /\ last = [op |-> "init"] /\ pOrder = <<>> /\ pVal = <<>>

Step(act, l) == act /\ last' = l /\ pOrder' = order /\ pVal' = val

MCNext == \/ \E k \in Keys : Step(Get(k), [op |-> "get", k |-> k])
          \/ \E k \in Keys : Step(Has(k), [op |-> "has", k |-> k])
          \/ \E k \in Keys, v \in Vals : Step(Set(k, v), [op |-> "set", k |-> k, v |-> v])
          \/ Step(Clear, [op |-> "clear"])

MCSpec == MCInit /\ [][MCNext]_mcVars

\* A hit returns what was stored last for that key and makes it most recently used;
\* a miss returns None and changes nothing.
GetSemantics == [][last'.op = "get" =>
                    IF last'.k \in DOMAIN val
                    THEN ret' = val[last'.k] /\ order'[1] = last'.k /\ val' = val
                    ELSE ret' = None /\ order' = order /\ val' = val]_mcVars
SetThenGet == [][last'.op = "set" /\ MaxSize # 0 => val'[last'.k] = last'.v /\ order'[1] = last'.k]_mcVars

AsPairs(f, s) == [i \in 1..Len(s) |-> <<s[i], f[s[i]]>>]
Export ==
  \/ last.op = "init"
  \/ Serialize(ToJson([max |-> MaxSize, call |-> last, pre |-> AsPairs(pVal, pOrder),
                       post |-> AsPairs(val, order),
                       ret |-> ret]) \o "\n",
               IOEnv.OUT, [format |-> "TXT", charset |-> "UTF-8",
                           openOptions |-> <<"WRITE", "CREATE", "APPEND">>]).exitValue = 0
=============================================================================
