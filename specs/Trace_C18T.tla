------------------------------ MODULE Trace_C18T ------------------------------
(***************************************************************************)
(* Trace validation for cached_template() / the component template cache.  *)
(* Events: compile(k) with the abstract identity of the returned Template  *)
(* object (first-seen numbering by the harness, which keeps every object   *)
(* alive so identities are never reused), whether its source / class /     *)
(* engine / rendered output equal those of a fresh compilation of key k,   *)
(* and the projected LRU order of the real cache; clear.                   *)
(* Component level: a trace may carry a class table `classes` (entry c =    *)
(* [path, src] of component class c; several classes share a path) and      *)
(* events render(c): class c was rendered; same observations, the flags     *)
(* compare with a fresh compilation of c's OWN template, and `fwd` lists     *)
(* the template numbers (src) of the cached entries.                        *)
(***************************************************************************)
EXTENDS TemplateCache, TLC, Json, IOUtils, SequencesExt

Traces == ndJsonDeserialize(IOEnv.IN)

VARIABLES tid, l, phase
trVars == <<order, val, ret, made, got, req, cls, tid, l, phase>>

Events == Traces[tid].events
Ev == Events[l]
CT == Traces[tid].classes      \* only evaluated for traces with render events

TrInit == TCInit /\ tid = 1 /\ l = 1 /\ phase = "step"

NextTrace == /\ tid' = tid + 1 /\ l' = 1 /\ phase' = "step"
             /\ order' = <<>> /\ val' = <<>> /\ ret' = None /\ made' = <<>> /\ got' = 0 /\ req' = 0 /\ cls' = 0

SpecAction(e) ==
  CASE e.op = "compile" -> Compile(e.k)
    [] e.op = "render"  -> RenderClass(CT, e.c)
    [] e.op = "clear"   -> ClearCache

Step == /\ tid <= Len(Traces) /\ phase = "step" /\ l <= Len(Events)
        /\ SpecAction(Ev)
        /\ phase' = "cmp" /\ UNCHANGED <<tid, l>>

Failing(e) ==
  IF e.op = "clear" THEN (IF e.fwd = <<>> THEN {} ELSE {"clear_left_entries"}) ELSE
  {c \in {"identity", "transparent", "lru_order", "bounded", "own_template"} :
     CASE c = "identity"    -> got # e.obj
       [] c = "transparent" -> ~(e.src_ok /\ e.cls_ok /\ e.eng_ok /\ e.out_ok)
       [] c = "lru_order"   -> IF e.op = "render"
                               THEN [i \in 1..Len(order) |-> SrcOfKey(order[i])] # e.fwd
                               ELSE order # e.fwd
       [] c = "bounded"     -> ~Bounded
       [] c = "own_template" -> e.op = "render" /\ ~OwnTemplate(CT)}

Cmp == /\ tid <= Len(Traces) /\ phase = "cmp"
       /\ IF Failing(Ev) = {}
          THEN /\ l' = l + 1 /\ phase' = "step" /\ UNCHANGED <<order, val, ret, made, got, req, cls, tid>>
          ELSE /\ PrintT(<<"REJECT", Traces[tid].id, l, Failing(Ev)>>)
               /\ NextTrace

Done == /\ tid <= Len(Traces) /\ phase = "step" /\ l > Len(Events)
        /\ PrintT(<<"ACCEPT", Traces[tid].id>>)
        /\ NextTrace

TrNext == Step \/ Cmp \/ Done
TrSpec == TrInit /\ [][TrNext]_trVars
=============================================================================
