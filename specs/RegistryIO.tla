----------------------------- MODULE RegistryIO -----------------------------
(* JSON <-> RegistryOps values.  JSON carries dictionaries as arrays of      *)
(* [key, value] pairs and sets as arrays (JSON null / {} are troublesome).   *)
EXTENDS Naturals, Sequences

Rng(s) == {s[i] : i \in 1..Len(s)}
Fn(pairs) == [k \in {p[1] : p \in Rng(pairs)} |-> (CHOOSE p \in Rng(pairs) : p[1] = k)[2]]

\* configuration as written by vf/c15.py -> configuration record of RegistryOps
NormCfg(j) ==
  LET pre == Fn(j.pre)  prot == Fn(j.prot)  fmts == Fn(j.fmts) IN
  [id |-> j.id, regs |-> Rng(j.regs), libof |-> Fn(j.libof),
   pre |-> [l \in DOMAIN pre |-> Fn(pre[l])],
   prot |-> [l \in DOMAIN prot |-> Rng(prot[l])],
   fmt0 |-> Fn(j.fmt0),
   fmts |-> [r \in DOMAIN fmts |-> Rng(fmts[r])],
   names |-> Rng(j.names), classes |-> Rng(j.classes), ops |-> Rng(j.ops), dev |-> j.dev]

\* world -> JSON-friendly sets of tuples
RegJ(reg) == UNION {{<<r, n, reg[r][n].cls, reg[r][n].tag>> : n \in DOMAIN reg[r]} : r \in DOMAIN reg}
LibJ(lib) == UNION {{<<l, t, lib[l][t]>> : t \in DOMAIN lib[l]} : l \in DOMAIN lib}
FmtJ(fmt) == {<<r, fmt[r]>> : r \in DOMAIN fmt}
WorldJ(w) == [reg |-> RegJ(w.reg), lib |-> LibJ(w.lib), fmt |-> FmtJ(w.fmt)]
=============================================================================
