------------------------------ MODULE Trace_C16 ------------------------------
(***************************************************************************)
(* Trace validation (code -> spec) for C16.  IOEnv.IN names an ndjson      *)
(* file; every line is one recorded run on the real library:               *)
(*   cls, rel : the hierarchy that was built (MediaInherit case format)    *)
(*   events   : in the order they happened                                 *)
(*     op "create": class c was created; out = ok | improperly | typeerror *)
(*     op "access": attribute a of class c was read (via the class or an   *)
(*         instance); for a = media the observed lists js / all / print    *)
(*         (file ids; 99 = a file nobody declared; other = number of       *)
(*         unexpected css media types), for a pair the class whose text    *)
(*         came back (src, kind) and whose file name `<a>_file` returned.  *)
(* Every event must be explained by the MediaInherit action of the same    *)
(* name, and the observation must satisfy what the specification           *)
(* determines (named clauses).  An observation MediaInherit rejects is     *)
(* then offered to the implementation-shaped model: if a set D of NAMED    *)
(* deviations predicts exactly what was observed, a KNOWN line names the   *)
(* smallest such D and validation continues; otherwise REJECT.  One final  *)
(* ACCEPT / REJECT line per trace.                                         *)
(***************************************************************************)
EXTENDS MediaInheritImpl, Json, IOUtils

Traces == ndJsonDeserialize(IOEnv.IN)

VARIABLES tid, l, phase
trVars == <<kase, memo, ret, tid, l, phase>>

DSets == SUBSET Devs
CaseOf(i) == IF i <= Len(Traces) THEN [cls |-> Traces[i].cls, rel |-> Traces[i].rel]
             ELSE [cls |-> <<>>, rel |-> <<>>]
Events == Traces[tid].events
Ev == Events[l]

TrInit == /\ tid = 1 /\ l = 1 /\ phase = "step"
          /\ kase = CaseOf(1) /\ memo = <<>> /\ ret = NoRet

NextTrace == /\ tid' = tid + 1 /\ l' = 1 /\ phase' = "step"
             /\ kase' = CaseOf(tid + 1) /\ memo' = <<>> /\ ret' = NoRet

SpecAction(e) ==
  CASE e.op = "create" -> UNCHANGED <<kase, memo, ret>>
    [] e.op = "access" /\ e.a = "media" -> AccessMedia(e.c, e.via)
    [] e.op = "access" /\ e.a # "media" -> AccessAttr(e.c, e.a, e.via)

Step == /\ tid <= Len(Traces) /\ phase = "step" /\ l <= Len(Events)
        /\ SpecAction(Ev)
        /\ phase' = "cmp" /\ UNCHANGED <<tid, l>>

Obs(e, t) == CASE t = "js" -> e.js [] t = "all" -> e.all [] t = "print" -> e.print

\* the clauses of the specification the observation of event e violates (short codes, so
\* that a verdict line never wraps): F files = exactly the union, O each file once, R order,
\* X unexpected css media type, S the abstract machine itself is off, E exception,
\* C creation outcome, N nearest-class rule, L <pair>_file form
Failing(e) ==
  IF e.op = "create"
  THEN (IF e.out \in Creation(kase, e.c) THEN {}
        ELSE {"C." \o e.out \o "/" \o (CHOOSE x \in Creation(kase, e.c) : TRUE)})
  ELSE IF e.exc THEN {"E." \o e.a}
  ELSE IF e.a = "media" THEN
       {"F." \o t : t \in {t \in Types : ~FilesOK(Obs(e, t), kase, e.c, t)}} \cup
       {"O." \o t : t \in {t \in Types : ~OnceOK(Obs(e, t))}} \cup
       {"R." \o t : t \in {t \in Types : FilesOK(Obs(e, t), kase, e.c, t) /\ OnceOK(Obs(e, t))
                                         /\ ~OrderOK(Obs(e, t), kase, e.c, t)}} \cup
       (IF e.other # 0 THEN {"X.css"} ELSE {}) \cup
       (IF ret.media # MediaVal(kase, e.c) THEN {"S.memo"} ELSE {})
  ELSE LET want == ret.attr IN
       (IF e.src # want.src \/ e.kind # want.kind THEN {"N." \o e.a} ELSE {}) \cup
       (IF e.file # (IF want.kind = "file" THEN want.src ELSE 0) THEN {"L." \o e.a} ELSE {})

\* state of the implementation model with deviations D after the first n events of this trace
\* (evaluated only when an observation needs an explanation)
RECURSIVE ImplAt(_, _)
ImplAt(D, n) ==
  IF n = 0 THEN ImplInit
  ELSE IF Events[n].op = "access" THEN ImplStep(kase, D, ImplAt(D, n - 1), Events[n].c, Events[n].a)
  ELSE ImplAt(D, n - 1)

\* the deviation sets whose implementation model predicts exactly this observation
Explaining(e, failing) ==
  IF e.op # "access" \/ e.exc \/ e.a # "media" \/ e.other # 0 THEN {}
  ELSE {D \in DSets \ {{}} :
          LET med == ImplMedia(kase, ImplAt(D, l), e.c) IN
          \A t \in Types :
            LET pred == med[t] IN
            IF "flatten" \in D THEN Obs(e, t) = pred
            ELSE /\ Range(Obs(e, t)) = Range(pred) /\ OnceOK(Obs(e, t))
                 /\ ("R." \o t) \notin failing}
Smallest(SS) == CHOOSE D \in SS : \A E \in SS : Cardinality(D) <= Cardinality(E)

RECURSIVE Join(_)
Join(S) == IF S = {} THEN "" ELSE LET x == CHOOSE x \in S : TRUE IN x \o " " \o Join(S \ {x})

Cmp == /\ tid <= Len(Traces) /\ phase = "cmp"
       /\ LET failing == Failing(Ev) IN
          IF failing = {}
          THEN /\ l' = l + 1 /\ phase' = "step" /\ UNCHANGED <<kase, memo, ret, tid>>
          ELSE LET ex == Explaining(Ev, failing) IN
               IF ex # {}
               THEN /\ PrintT(<<"KNOWN", Traces[tid].id, l, Join(Smallest(ex)), Join(failing)>>)
                    /\ l' = l + 1 /\ phase' = "step" /\ UNCHANGED <<kase, memo, ret, tid>>
               ELSE /\ PrintT(<<"REJECT", Traces[tid].id, l, Join(failing)>>)
                    /\ NextTrace

Done == /\ tid <= Len(Traces) /\ phase = "step" /\ l > Len(Events)
        /\ PrintT(<<"ACCEPT", Traces[tid].id>>)
        /\ NextTrace

TrNext == Step \/ Cmp \/ Done
TrSpec == TrInit /\ [][TrNext]_trVars
=============================================================================
