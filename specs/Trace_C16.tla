------------------------------ MODULE Trace_C16 ------------------------------
(***************************************************************************)
(* Trace validation (code -> spec) for C16.  IOEnv.IN names an ndjson      *)
(* file; every line is one recorded run on the real library:               *)
(*   cls, rel : the hierarchy that was built (MediaInherit case format)    *)
(*   events   : in the order they happened                                 *)
(*     op "create": class c was created; out = ok | improperly | typeerror *)
(*         and the MRO Python computed (checks the C3 transcription)       *)
(*     op "access": attribute a of class c was read (via the class or an   *)
(*         instance); for a = media the observed lists js / all / print    *)
(*         (file ids; 99 = a file nobody declared; other = number of       *)
(*         unexpected css media types), for a pair the class whose text    *)
(*         came back (src, kind; val = text | empty | ws | none: a blank   *)
(*         text is a value) and whose file name `<a>_file` returned; for   *)
(*         a = render the classes whose template / script / style texts    *)
(*         the rendered document contains (rtpl, rjs, rcss: RCode values); *)
(*         miss = the asset files ([c, p]: `<p>_file` of class c) that do  *)
(*         not exist at the moment of the access (fault-then-retry runs).  *)
(* Every event must be explained by the MediaInherit action of the same    *)
(* name, and the observation must satisfy what the specification           *)
(* determines (named clauses).  An observation MediaInherit rejects is     *)
(* then offered to the implementation-shaped model at the end of the run:  *)
(* if a set D of NAMED deviations predicts every media observation of the  *)
(* run, a KNOWN line lists the minimal such sets (I inherit, F flatten,    *)
(* L lazy; "|" between alternatives) with the first rejected event and all *)
(* rejected clauses; otherwise REJECT.  One final ACCEPT / REJECT line per *)
(* trace.                                                                  *)
(***************************************************************************)
EXTENDS MediaInheritImpl, Json, IOUtils

Traces == ndJsonDeserialize(IOEnv.IN)

VARIABLES tid, l, phase, fl, fc     \* fl: first rejected media observation (0: none), fc: its clauses and later ones
trVars == <<kase, memo, ret, tid, l, phase, fl, fc>>

DSets == SUBSET Devs
CaseOf(i) == IF i <= Len(Traces) THEN [cls |-> Traces[i].cls, rel |-> Traces[i].rel]
             ELSE [cls |-> <<>>, rel |-> <<>>]
Events == Traces[tid].events
Ev == Events[l]

TrInit == /\ tid = 1 /\ l = 1 /\ phase = "step"
          /\ kase = CaseOf(1) /\ memo = <<>> /\ ret = NoRet /\ fl = 0 /\ fc = {}

NextTrace == /\ tid' = tid + 1 /\ l' = 1 /\ phase' = "step"
             /\ kase' = CaseOf(tid + 1) /\ memo' = <<>> /\ ret' = NoRet /\ fl' = 0 /\ fc' = {}

SpecAction(e) ==
  CASE e.op = "create" -> UNCHANGED <<kase, memo, ret>>
    [] e.op = "access" /\ e.a = "media" -> AccessMedia(e.c, e.via)
    [] e.op = "access" /\ e.a = "render" -> AccessRender(e.c, e.via)
    [] e.op = "access" /\ e.a \notin {"media", "render"} -> AccessAttr(e.c, e.a, e.via)

Step == /\ tid <= Len(Traces) /\ phase = "step" /\ l <= Len(Events)
        /\ SpecAction(Ev)
        /\ phase' = "cmp" /\ UNCHANGED <<tid, l, fl, fc>>

Obs(e, t) == CASE t = "js" -> e.js [] t = "all" -> e.all [] t = "print" -> e.print

\* the clauses of the specification the observation of event e violates (short codes, so
\* that a verdict line never wraps): F files = exactly the union, O each file once, R order,
\* X unexpected css media type, S the abstract machine itself is off, E exception,
\* (admitted while a file in the MRO of the class is missing: MediaInherit!MayRaise), Q an answer although the
\* file of the nearest definition is missing (MediaInherit!MustRaise),
\* C creation outcome, M Python's MRO differs from Mro(c), N nearest-class rule, L <pair>_file form,
\* T / J / Y the rendered document carries another template / script / style than the nearest definition's
RenderFailing(e) ==
  LET a == ret.attr IN
  IF a["template"].src = 0 THEN {}               \* no template anywhere: rendering is not determined here
  ELSE IF e.exc THEN {"E.render"}
  ELSE IF Content(a["template"].kind) # "text"  \* a blank document has no place for tags: nothing foreign in it
  THEN (IF Range(e.rtpl) = {} THEN {} ELSE {"T.render"}) \cup
       (IF Range(e.rjs) \subseteq Shipped(a["js"]) THEN {} ELSE {"J.render"}) \cup
       (IF Range(e.rcss) \subseteq Shipped(a["css"]) THEN {} ELSE {"Y.render"})
  ELSE (IF Range(e.rtpl) = Shipped(a["template"]) THEN {} ELSE {"T.render"}) \cup
       (IF Range(e.rjs) = Shipped(a["js"]) THEN {} ELSE {"J.render"}) \cup
       (IF Range(e.rcss) = Shipped(a["css"]) THEN {} ELSE {"Y.render"})
\* the asset files that do not exist at the moment of the access (recorded with the event)
MissOf(e) == {<<e.miss[i].c, e.miss[i].p>> : i \in 1..Len(e.miss)}
ValueOK(e, want) ==
  /\ e.val = want.val
  /\ want.val # "empty" => (e.src = want.src /\ e.kind = want.kind)      \* "" has no class identity
Failing(e) ==
  IF e.op = "create"
  THEN (IF e.out \in Creation(kase, e.c) THEN {}
        ELSE {"C." \o e.out \o "/" \o (CHOOSE x \in Creation(kase, e.c) : TRUE)}) \cup
       (IF e.out = "ok" /\ e.mro # Mro(kase, e.c).seq THEN {"M.mro"} ELSE {})
  ELSE IF e.a = "render" THEN RenderFailing(e)
  ELSE IF e.exc THEN (IF MayRaise(kase, e.c, MissOf(e)) THEN {} ELSE {"E." \o e.a})
  ELSE IF MustRaise(kase, e.c, e.a, MissOf(e)) THEN {"Q." \o e.a}
  ELSE IF e.a = "media" THEN
       {"F." \o t : t \in {t \in Types : ~FilesOK(Obs(e, t), kase, e.c, t)}} \cup
       {"O." \o t : t \in {t \in Types : ~OnceOK(Obs(e, t))}} \cup
       {"R." \o t : t \in {t \in Types : FilesOK(Obs(e, t), kase, e.c, t) /\ OnceOK(Obs(e, t))
                                         /\ ~OrderOK(Obs(e, t), kase, e.c, t)}} \cup
       (IF e.other # 0 THEN {"X.css"} ELSE {}) \cup
       (IF ret.media # MediaVal(kase, e.c) THEN {"S.memo"} ELSE {})
  ELSE LET want == Value(ret.attr) IN
       (IF ~ValueOK(e, want) THEN {"N." \o e.a} ELSE {}) \cup
       (IF e.file # (IF want.kind = "file" THEN want.src ELSE 0) THEN {"L." \o e.a} ELSE {})

\* Does the implementation model with deviations D predict what was observed at media event e
\* (st: its state after the event)?  With "flatten" the exact lists; without it the model does
\* not fix an order, so the sets, and no contradiction with a declared order.
OrderFails(e, t) == FilesOK(Obs(e, t), kase, e.c, t) /\ OnceOK(Obs(e, t)) /\ ~OrderOK(Obs(e, t), kase, e.c, t)
Predicts(D, st, e) ==
  LET med == ImplMedia(kase, st, e.c) IN
  /\ e.other = 0
  /\ \A t \in Types :
       IF "flatten" \in D THEN Obs(e, t) = med[t]
       ELSE Range(Obs(e, t)) = Range(med[t]) /\ OnceOK(Obs(e, t)) /\ ~OrderFails(e, t)

\* D explains the run so far: it predicts EVERY media observation among the first n events
RECURSIVE Walk(_, _, _, _)
Walk(D, st, j, n) ==
  IF j > n THEN TRUE
  ELSE LET e == Events[j] IN
       IF e.op # "access" THEN Walk(D, st, j + 1, n)
       ELSE LET st2 == ImplStep(kase, D, st, e.c, e.a) IN
            /\ (e.a = "media" /\ ~e.exc) => Predicts(D, st2, e)
            /\ Walk(D, st2, j + 1, n)

\* the minimal sets of named deviations that explain the whole run
Explaining ==
  \* (UNION of explicit sets: a set comprehension would re-evaluate Walk on every membership test)
  LET ex == UNION {IF Walk(D, ImplInit, 1, Len(Events)) THEN {D} ELSE {} : D \in DSets \ {{}}} IN
  {D \in ex : \A E \in ex : ~(E \subseteq D /\ E # D)}
Explainable(e) == e.op = "access" /\ ~e.exc /\ e.a = "media"

RECURSIVE Join(_, _)
Join(S, sep) == IF S = {} THEN "" ELSE LET x == CHOOSE x \in S : TRUE IN
                x \o (IF S = {x} THEN "" ELSE sep) \o Join(S \ {x}, sep)
Code(D) == Join({CASE d = "inherit" -> "I" [] d = "flatten" -> "F" [] d = "lazy" -> "L" : d \in D}, "")

Cmp == /\ tid <= Len(Traces) /\ phase = "cmp"
       /\ LET failing == Failing(Ev) IN
          IF failing = {}
          THEN /\ l' = l + 1 /\ phase' = "step" /\ UNCHANGED <<kase, memo, ret, tid, fl, fc>>
          ELSE IF Explainable(Ev)          \* judged at the end of the run, against the whole run
          THEN /\ fl' = (IF fl = 0 THEN l ELSE fl) /\ fc' = fc \cup failing
               /\ l' = l + 1 /\ phase' = "step" /\ UNCHANGED <<kase, memo, ret, tid>>
          ELSE /\ PrintT(<<"REJECT", Traces[tid].id, l, Join(failing, " ")>>)
               /\ NextTrace

Done == /\ tid <= Len(Traces) /\ phase = "step" /\ l > Len(Events)
        /\ IF fl = 0 THEN PrintT(<<"ACCEPT", Traces[tid].id>>)
           ELSE LET ex == Explaining IN
                IF ex # {}
                THEN /\ PrintT(<<"KNOWN", Traces[tid].id, fl, Join({Code(D) : D \in ex}, "|"), Join(fc, " ")>>)
                     /\ PrintT(<<"ACCEPT", Traces[tid].id>>)
                ELSE PrintT(<<"REJECT", Traces[tid].id, fl, Join(fc, " ")>>)
        /\ NextTrace

TrNext == Step \/ Cmp \/ Done
TrSpec == TrInit /\ [][TrNext]_trVars
=============================================================================
