---------------------------- MODULE Autodiscover ----------------------------
(***************************************************************************)
(* What get_component_files(suffix) / autodiscover() promise (C20).        *)
(*                                                                         *)
(* A tree is a set of entries under one component directory ("root"):      *)
(*   [kind |-> "file" | "dir", parts |-> <<"pkg", "m.py">>]                *)
(* parts being the path relative to the root (a file entry implies its     *)
(* parent directories; a "dir" entry is a directory that exists as such).  *)
(* A root is [kind |-> "dirs" | "app", prefix |-> <<...>>]: for a          *)
(* directory of COMPONENTS.dirs / STATICFILES_DIRS the prefix is its path  *)
(* from the project root (BASE_DIR); for an app directory it is the app's  *)
(* package name followed by the app_dirs entry.                            *)
(*                                                                         *)
(*   Selected(e, sfx) == e is a file /\ its name ends with sfx             *)
(*                       /\ no directory part starts with "_"              *)
(*                       /\ the name does not start with "_" unless it is  *)
(*                          "__init__.py"                                  *)
(*                       /\ no part starts with "."                        *)
(*   DotPath(root, e) == prefix and parts joined by ".", the name without  *)
(*                       its extension, a final "__init__" dropped         *)
(* sfx = "" encodes suffix=None (every file).                              *)
(*                                                                         *)
(* Loadable says when Python's import system, with the project root (or    *)
(* the app's parent) on sys.path, loads exactly that file for DotPath -    *)
(* the oracle for "the dotted path Python would use to import that file".  *)
(*                                                                         *)
(* Searched says WHICH directories are component directories under a       *)
(* configuration: every candidate root carries `src`, the places where the *)
(* configuration mentions it, and cfg says whether COMPONENTS.dirs /        *)
(* COMPONENTS.app_dirs are given at all.  A given list may be empty, which *)
(* is a different configuration from a list that is not given ("Set to     *)
(* empty list to disable global components directories" / "... app-level   *)
(* components", docs/reference/settings).  Files of directories that exist *)
(* but are not searched must not be returned.                              *)
(*                                                                         *)
(* HOW a directory is written down does not matter: a COMPONENTS.dirs /    *)
(* STATICFILES_DIRS element is an absolute path and denotes the directory  *)
(* it leads to - with a trailing slash, with "." or ".." segments, through *)
(* a symbolic link, or listed several times under different spellings, it  *)
(* is one component directory whose files are returned once each.  An      *)
(* app_dirs element is a path relative to the app ("The paths must be      *)
(* relative to app"): "ui/widgets", "components/", "./components" denote   *)
(* <app>/ui/widgets, <app>/components, and the dotted path has one part    *)
(* per path segment.                                                       *)
(*                                                                         *)
(* The last part names the deviations of the implementation so that a      *)
(* failing case is classified as a known finding or as a new violation.    *)
(***************************************************************************)
EXTENDS Integers, Sequences, FiniteSets

(* ---- strings ---------------------------------------------------------- *)
Ch(s, i) == SubSeq(s, i, i)
EndsWith(n, s) == Len(s) <= Len(n) /\ SubSeq(n, Len(n) - Len(s) + 1, Len(n)) = s
StartsWith(n, s) == Len(s) <= Len(n) /\ SubSeq(n, 1, Len(s)) = s
Contains(n, s) == \E i \in 1..(Len(n) - Len(s) + 1) : SubSeq(n, i, i + Len(s) - 1) = s
IsPrefix(p, q) == Len(p) <= Len(q) /\ SubSeq(q, 1, Len(p)) = p
RECURSIVE JoinWith(_, _)
JoinWith(ps, sep) == IF ps = <<>> THEN ""
                     ELSE IF Len(ps) = 1 THEN ps[1]
                     ELSE ps[1] \o sep \o JoinWith(Tail(ps), sep)

(* ---- entries ---------------------------------------------------------- *)
File(parts) == [kind |-> "file", parts |-> parts]
Dir(parts) == [kind |-> "dir", parts |-> parts]
Name(e) == e.parts[Len(e.parts)]
DirParts(e) == SubSeq(e.parts, 1, Len(e.parts) - 1)

Hidden(p) == StartsWith(p, ".")
Underscored(p) == StartsWith(p, "_")
Public(e) == /\ \A i \in 1..Len(e.parts) : ~Hidden(e.parts[i])
             /\ \A i \in 1..(Len(e.parts) - 1) : ~Underscored(e.parts[i])
             /\ (Underscored(Name(e)) => Name(e) = "__init__.py")
HasSuffix(n, sfx) == sfx = "" \/ EndsWith(n, sfx)
Selected(e, sfx) == e.kind = "file" /\ HasSuffix(Name(e), sfx) /\ Public(e)

(* ---- dotted path ------------------------------------------------------ *)
LastDot(n) == IF \E i \in 1..Len(n) : Ch(n, i) = "."
              THEN CHOOSE i \in 1..Len(n) : Ch(n, i) = "." /\ \A j \in (i+1)..Len(n) : Ch(n, j) # "."
              ELSE 0
\* the name without its (last) extension; a leading dot does not start an extension
Stem(n) == IF LastDot(n) <= 1 THEN n ELSE SubSeq(n, 1, LastDot(n) - 1)
ModParts(root, e) == root.prefix \o DirParts(e) \o (IF Stem(Name(e)) = "__init__" THEN <<>> ELSE <<Stem(Name(e))>>)
DotPath(root, e) == JoinWith(ModParts(root, e), ".")
\* A directory that the configuration names through a symbolic link lying inside the project (root.alias =
\* the path of the link from BASE_DIR) can be imported from the project root under two dotted paths - through
\* its real location and through the link.  The property does not say which; both are admitted (and
\* autodiscover() is then not demanded, AliasListed).  Every other spelling leaves exactly DotPath.
AliasListed(root) == \E i \in DOMAIN root.src : root.src[i].spell = "alias"
DotPaths(root, e) == {DotPath(root, e)} \cup
                     (IF AliasListed(root) THEN {DotPath([prefix |-> root.alias], e)} ELSE {})
\* The dotted path is only meaningful when no directory part and no stem contains a dot
\* (otherwise the joined string does not determine the parts); elsewhere only the selection is compared.
DotDetermined(e) == /\ \A i \in 1..(Len(e.parts) - 1) : ~Contains(e.parts[i], ".")
                    /\ ~Contains(Stem(Name(e)), ".")
                    /\ ~EndsWith(Name(e), ".")

(* ---- what Python imports ---------------------------------------------- *)
IsPySource(n) == EndsWith(n, ".py") \/ EndsWith(n, ".pyc")
HasFile(tree, parts) == File(parts) \in tree
\* Directory P (a prefix of some entry) is importable as a (regular or namespace) package unless a
\* module file of the same name stands beside it and P has no __init__.py (then the name is that module).
PackageOK(tree, P) ==
  LET D == SubSeq(P, 1, Len(P) - 1)
      s == P[Len(P)] IN
  HasFile(tree, P \o <<"__init__.py">>) \/ ~(HasFile(tree, D \o <<s \o ".py">>) \/ HasFile(tree, D \o <<s \o ".pyc">>))
\* import DotPath(e) loads exactly the file e
Loadable(tree, e) ==
  /\ e.kind = "file" /\ EndsWith(Name(e), ".py") /\ DotDetermined(e)
  /\ \A i \in 1..(Len(e.parts) - 1) : PackageOK(tree, SubSeq(e.parts, 1, i))
  \* a bare __init__.pyc makes a directory (the root included) a sourceless package whose byte code decides
  /\ \A i \in 0..(Len(e.parts) - 1) : ~HasFile(tree, SubSeq(e.parts, 1, i) \o <<"__init__.pyc">>)
  /\ Name(e) # "__init__.py" =>
       ~HasFile(tree, DirParts(e) \o <<Stem(Name(e)), "__init__.py">>)        \* a package of that name wins

(* ---- which directories are searched ------------------------------------ *)
\* r.src: sequence of mentions [in |-> "dirs" | "static" | "default", form |-> ..., spell |-> ...]:
\*     "dirs"    the directory is an element of COMPONENTS.dirs
\*     "static"  the directory is an element of STATICFILES_DIRS
\*     "default" the directory is BASE_DIR/components
\*   form = how the element is written (str / Path / (prefix, path) tuple), spell = how its absolute path is
\*   spelled; neither means anything for what is searched or selected:
\*     "plain"   /base/comps              "slash"   /base/comps/          "dot"    /base/./comps
\*     "dotdot"  /base/conf/../comps      "updown"  /base/comps/../comps
\*     "alias"   /base/<r.alias>, a symbolic link to the directory (r.alias = <<>>: no such link exists)
\*   A directory may be mentioned SEVERAL times in the same list (under the same or different spellings): it is
\*   still one component directory.  A directory root without mentions is just a directory of the project.
\* App roots (kind "app") are <app package>/<path>: r.app = the parts of the app's package name, r.prefix =
\*   r.app followed by the path segments.  r.reach says how the file system leads there - it means nothing for
\*   what is found and under which dotted path (an installed app is the package Python imported under its name,
\*   <app>/<path> the directory that path leads to):
\*     "plain"    the app package lies in an ordinary sys.path entry, <app>/<path> is a directory in it
\*     "pathlink" the app package was located through a sys.path entry that is a symbolic link (current ->
\*                releases/42, a linked site-packages): the app's path as Python / Django know it contains the link
\*     "dirlink"  <app>/<path> is itself a symbolic link to a directory elsewhere (a shared directory which is
\*                not importable under any other name)
\*   The files are the app's modules <app>.<path>.<...> in each case, returned once.  Project directories have
\*   reach "plain" (their spellings are in src).
\* cfg.dirs \in {"unset", "set"}: COMPONENTS.dirs is not given / given; the given list is exactly the mentions
\*   "dirs" of the roots, so it is EMPTY when there is none.  Likewise STATICFILES_DIRS is the list of "static"
\*   mentions (Django's default: empty).
\* cfg.appdirs \in {"unset", "set"}, cfg.appnames the given list of entries (may be empty), each
\*   [segs |-> <<"ui", "widgets">>, spell |-> "plain" ("ui/widgets") | "slash" ("ui/widgets/") | "dot" ("./ui/widgets")]
\*   - a relative path, denoting <app>/ui/widgets however it is spelled.
\*   - COMPONENTS.dirs given: exactly its elements (none for the empty list), whatever STATICFILES_DIRS says;
\*   - not given: the legacy STATICFILES_DIRS when that is non-empty, else the default BASE_DIR/components;
\*   - app directories: <app>/<path> for every entry of app_dirs (default "components"; none for <<>>).
Spells == {"plain", "slash", "dot", "dotdot", "updown", "alias"}
AppSpells == {"plain", "slash", "dot"}
AppReaches == {"plain", "pathlink", "dirlink"}
In(r, w) == \E i \in DOMAIN r.src : r.src[i].in = w
StaticGiven(roots) == \E k \in DOMAIN roots : roots[k].kind = "dirs" /\ In(roots[k], "static")
AppPaths(cfg) == IF cfg.appdirs = "unset" THEN {<<"components">>} ELSE {cfg.appnames[i].segs : i \in DOMAIN cfg.appnames}
Searched(cfg, roots, k) ==
  LET r == roots[k] IN
  IF r.kind = "app" THEN \E p \in AppPaths(cfg) : r.prefix = r.app \o p
  ELSE \/ cfg.dirs = "set" /\ In(r, "dirs")
       \/ cfg.dirs = "unset" /\ In(r, "static")
       \/ cfg.dirs = "unset" /\ ~StaticGiven(roots) /\ In(r, "default")
Active(cfg, roots) == {k \in DOMAIN roots : Searched(cfg, roots, k)}
\* a configuration that can be written down: a "dirs" mention needs COMPONENTS.dirs to be given, a spelling through
\* a link needs the link; app_dirs entries are non-empty relative paths none of which lies inside another
\* (nested component directories are outside the property) - the SAME path may be given several times.
CfgWellFormed(cfg, roots) ==
  /\ (\E k \in DOMAIN roots : roots[k].kind = "dirs" /\ In(roots[k], "dirs")) => cfg.dirs = "set"
  /\ \A k \in DOMAIN roots : \A i \in DOMAIN roots[k].src :
       /\ roots[k].src[i].spell \in Spells
       /\ roots[k].src[i].spell = "alias" => roots[k].alias # <<>>
  /\ \A k \in DOMAIN roots : roots[k].kind = "app" => IsPrefix(roots[k].app, roots[k].prefix)
  /\ \A k \in DOMAIN roots : roots[k].reach \in AppReaches /\ (roots[k].kind = "dirs" => roots[k].reach = "plain")
  /\ cfg.base \in {"plain", "dotdot", "alias"}
  /\ \A i \in DOMAIN cfg.appnames : cfg.appnames[i].segs # <<>> /\ cfg.appnames[i].spell \in AppSpells
  /\ \A i, j \in DOMAIN cfg.appnames :
       IsPrefix(cfg.appnames[i].segs, cfg.appnames[j].segs) => cfg.appnames[i].segs = cfg.appnames[j].segs

(* ---- expected result of get_component_files(sfx) over several roots ---- *)
\* roots: sequence of root records; trees: sequence of trees (same length).  A row: the file (root k, parts),
\* the dotted path (dots: every admitted one), n: how many times it is returned (once).
Row(k, root, e, n) == [k |-> k, parts |-> e.parts, dot |-> DotPath(root, e), dots |-> DotPaths(root, e),
                       cmpdot |-> DotDetermined(e), n |-> n]
Expected(cfg, roots, trees, sfx) ==
  UNION {{Row(k, roots[k], e, 1) : e \in {x \in trees[k] : Selected(x, sfx)}} : k \in Active(cfg, roots)}
\* cfg.base: how BASE_DIR itself is spelled ("plain" / "dotdot": /base/conf/.. / "alias": a symbolic link to the
\* project directory).  It is the project root however it is spelled: Expected does not look at it.
\* Likewise roots[k].reach (an app located through a linked sys.path entry, an app directory that is a link):
\* the app directory is a component directory of that app however the file system leads to it.

(* ---- named deviations of the implementation ---------------------------- *)
\* Each deviation has a trigger (the shape of the case) and a predicted wrong outcome; a failing observation
\* that equals the prediction of a set D of triggered deviations is classified as those known findings.
\* "dir"   directory-matches-suffix:returned-as-file - the glob result is not restricted to files, so a public
\*         directory whose name ends with the suffix (any public directory for suffix=None) is returned as an
\*         entry.  The directories implied by file entries exist as well.
\* "glob"  root-path-has-glob-metachar:nothing-found - the directory path is pasted into the glob pattern
\*         unescaped, so a root whose absolute path contains a glob character class (root.globmeta) yields nothing.
\* "appdup" app_dirs-entry-repeated:files-returned-once-per-entry - the app directories are searched once per
\*         app_dirs ENTRY, so an entry given twice ("components", "components/") returns every file twice.
\* "base"  base-dir-not-normalised:ValueError - dotted paths of project directories are computed relative to the
\*         BASE_DIR string as written while the directories are normalised: with BASE_DIR spelled through ".."
\*         or a symbolic link the first selected file of a project directory raises ValueError.
ImpliedDirs(tree) == UNION {{Dir(SubSeq(e.parts, 1, i)) : i \in 1..(Len(e.parts) - 1)} : e \in tree}
AllEntries(tree) == tree \cup ImpliedDirs(tree)
DevDirSelected(e, sfx) == HasSuffix(Name(e), sfx) /\ Public(e)
AppMult(cfg, r) == IF r.kind = "app" /\ cfg.appdirs = "set"
                   THEN Cardinality({i \in DOMAIN cfg.appnames : r.prefix = r.app \o cfg.appnames[i].segs}) ELSE 1
AllDevs == {"dir", "glob", "appdup", "base"}
DevKey(d) == CASE d = "dir" -> "directory-matches-suffix:returned-as-file"
               [] d = "glob" -> "root-path-has-glob-metachar:nothing-found"
               [] d = "appdup" -> "app_dirs-entry-repeated:files-returned-once-per-entry"
               [] d = "base" -> "base-dir-not-normalised:ValueError"
Triggered(cfg, roots, trees, sfx, d) ==
  CASE d = "dir" -> \E k \in Active(cfg, roots) : ~roots[k].globmeta /\
                      \E x \in AllEntries(trees[k]) : x.kind = "dir" /\ DevDirSelected(x, sfx)
    [] d = "glob" -> \E k \in Active(cfg, roots) : roots[k].globmeta /\ \E x \in trees[k] : Selected(x, sfx)
    [] d = "appdup" -> \E k \in Active(cfg, roots) : AppMult(cfg, roots[k]) > 1 /\ \E x \in trees[k] : Selected(x, sfx)
    [] d = "base" -> cfg.base # "plain" /\
                     \E k \in Active(cfg, roots) : roots[k].kind = "dirs" /\ \E x \in trees[k] : Selected(x, sfx)
DevsFor(cfg, roots, trees, sfx) == {d \in AllDevs : Triggered(cfg, roots, trees, sfx, d)}
\* how an exception of get_component_files is recorded: one row, root 0
Raised(exc) == {[k |-> 0, parts |-> <<"<" \o exc \o ">">>, dot |-> "", dots |-> {""}, cmpdot |-> FALSE, n |-> 1]}
DevExpectedW(cfg, roots, trees, sfx, D) ==
  IF "base" \in D THEN Raised("ValueError") ELSE
  UNION {{Row(k, roots[k], e, IF "appdup" \in D THEN AppMult(cfg, roots[k]) ELSE 1) :
            e \in IF "dir" \in D THEN {x \in AllEntries(trees[k]) : DevDirSelected(x, sfx)}
                  ELSE {x \in trees[k] : Selected(x, sfx)}} :
           k \in {j \in Active(cfg, roots) : "glob" \in D => ~roots[j].globmeta}}
\* the alternatives a failing observation is compared with: every non-empty set of triggered deviations
DevAlternatives(cfg, roots, trees, sfx) ==
  {[keys |-> {DevKey(d) : d \in D}, rows |-> DevExpectedW(cfg, roots, trees, sfx, D)] :
     D \in (SUBSET DevsFor(cfg, roots, trees, sfx)) \ {{}}}
\* all triggered deviations at once (what the implementation with every deviation returns)
DevExpected(cfg, roots, trees, sfx) == DevExpectedW(cfg, roots, trees, sfx, DevsFor(cfg, roots, trees, sfx))
DevKeysFor(cfg, roots, trees, sfx) == {DevKey(d) : d \in DevsFor(cfg, roots, trees, sfx)}
=============================================================================
