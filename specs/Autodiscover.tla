---------------------------- MODULE Autodiscover ----------------------------
(***************************************************************************)
(* What get_component_files(suffix) / autodiscover() promise (C20).        *)
(*                                                                         *)
(* A tree is a set of entries under one component directory ("root"):      *)
(*   [kind |-> "file" | "dir", parts |-> <<"pkg", "m.py">>]                *)
(* parts being the path relative to the root (a file entry implies its     *)
(* parent directories; a "dir" entry is a directory that exists as such).  *)
(* A root is [kind |-> "dirs" | "app", prefix |-> <<...>>]: for a          *)
(* directory of COMPONENTS.dirs / STATICFILES_DIRS the prefix is its path  *)
(* from the project root (BASE_DIR); for an app directory it is the app's  *)
(* package name followed by the app_dirs entry.                            *)
(*                                                                         *)
(*   Selected(e, sfx) == e is a file /\ its name ends with sfx             *)
(*                       /\ no directory part starts with "_"              *)
(*                       /\ the name does not start with "_" unless it is  *)
(*                          "__init__.py"                                  *)
(*                       /\ no part starts with "."                        *)
(*   DotPath(root, e) == prefix and parts joined by ".", the name without  *)
(*                       its extension, a final "__init__" dropped         *)
(* sfx = "" encodes suffix=None (every file).                              *)
(*                                                                         *)
(* Loadable says when Python's import system, with the project root (or    *)
(* the app's parent) on sys.path, loads exactly that file for DotPath -    *)
(* the oracle for "the dotted path Python would use to import that file".  *)
(*                                                                         *)
(* Searched says WHICH directories are component directories under a       *)
(* configuration: every candidate root carries `src`, the places where the *)
(* configuration mentions it, and cfg says whether COMPONENTS.dirs /        *)
(* COMPONENTS.app_dirs are given at all.  A given list may be empty, which *)
(* is a different configuration from a list that is not given ("Set to     *)
(* empty list to disable global components directories" / "... app-level   *)
(* components", docs/reference/settings).  Files of directories that exist *)
(* but are not searched must not be returned.                              *)
(*                                                                         *)
(* The last part names two deviations of the implementation so that a      *)
(* failing case is classified as a known finding or as a new violation.    *)
(***************************************************************************)
EXTENDS Integers, Sequences, FiniteSets

(* ---- strings ---------------------------------------------------------- *)
Ch(s, i) == SubSeq(s, i, i)
EndsWith(n, s) == Len(s) <= Len(n) /\ SubSeq(n, Len(n) - Len(s) + 1, Len(n)) = s
StartsWith(n, s) == Len(s) <= Len(n) /\ SubSeq(n, 1, Len(s)) = s
Contains(n, s) == \E i \in 1..(Len(n) - Len(s) + 1) : SubSeq(n, i, i + Len(s) - 1) = s
IsPrefix(p, q) == Len(p) <= Len(q) /\ SubSeq(q, 1, Len(p)) = p
RECURSIVE JoinWith(_, _)
JoinWith(ps, sep) == IF ps = <<>> THEN ""
                     ELSE IF Len(ps) = 1 THEN ps[1]
                     ELSE ps[1] \o sep \o JoinWith(Tail(ps), sep)

(* ---- entries ---------------------------------------------------------- *)
File(parts) == [kind |-> "file", parts |-> parts]
Dir(parts) == [kind |-> "dir", parts |-> parts]
Name(e) == e.parts[Len(e.parts)]
DirParts(e) == SubSeq(e.parts, 1, Len(e.parts) - 1)

Hidden(p) == StartsWith(p, ".")
Underscored(p) == StartsWith(p, "_")
Public(e) == /\ \A i \in 1..Len(e.parts) : ~Hidden(e.parts[i])
             /\ \A i \in 1..(Len(e.parts) - 1) : ~Underscored(e.parts[i])
             /\ (Underscored(Name(e)) => Name(e) = "__init__.py")
HasSuffix(n, sfx) == sfx = "" \/ EndsWith(n, sfx)
Selected(e, sfx) == e.kind = "file" /\ HasSuffix(Name(e), sfx) /\ Public(e)

(* ---- dotted path ------------------------------------------------------ *)
LastDot(n) == IF \E i \in 1..Len(n) : Ch(n, i) = "."
              THEN CHOOSE i \in 1..Len(n) : Ch(n, i) = "." /\ \A j \in (i+1)..Len(n) : Ch(n, j) # "."
              ELSE 0
\* the name without its (last) extension; a leading dot does not start an extension
Stem(n) == IF LastDot(n) <= 1 THEN n ELSE SubSeq(n, 1, LastDot(n) - 1)
ModParts(root, e) == root.prefix \o DirParts(e) \o (IF Stem(Name(e)) = "__init__" THEN <<>> ELSE <<Stem(Name(e))>>)
DotPath(root, e) == JoinWith(ModParts(root, e), ".")
\* The dotted path is only meaningful when no directory part and no stem contains a dot
\* (otherwise the joined string does not determine the parts); elsewhere only the selection is compared.
DotDetermined(e) == /\ \A i \in 1..(Len(e.parts) - 1) : ~Contains(e.parts[i], ".")
                    /\ ~Contains(Stem(Name(e)), ".")
                    /\ ~EndsWith(Name(e), ".")

(* ---- what Python imports ---------------------------------------------- *)
IsPySource(n) == EndsWith(n, ".py") \/ EndsWith(n, ".pyc")
HasFile(tree, parts) == File(parts) \in tree
\* Directory P (a prefix of some entry) is importable as a (regular or namespace) package unless a
\* module file of the same name stands beside it and P has no __init__.py (then the name is that module).
PackageOK(tree, P) ==
  LET D == SubSeq(P, 1, Len(P) - 1)
      s == P[Len(P)] IN
  HasFile(tree, P \o <<"__init__.py">>) \/ ~(HasFile(tree, D \o <<s \o ".py">>) \/ HasFile(tree, D \o <<s \o ".pyc">>))
\* import DotPath(e) loads exactly the file e
Loadable(tree, e) ==
  /\ e.kind = "file" /\ EndsWith(Name(e), ".py") /\ DotDetermined(e)
  /\ \A i \in 1..(Len(e.parts) - 1) : PackageOK(tree, SubSeq(e.parts, 1, i))
  \* a bare __init__.pyc makes a directory (the root included) a sourceless package whose byte code decides
  /\ \A i \in 0..(Len(e.parts) - 1) : ~HasFile(tree, SubSeq(e.parts, 1, i) \o <<"__init__.pyc">>)
  /\ Name(e) # "__init__.py" =>
       ~HasFile(tree, DirParts(e) \o <<Stem(Name(e)), "__init__.py">>)        \* a package of that name wins

(* ---- which directories are searched ------------------------------------ *)
\* r.src: sequence of mentions [in |-> "dirs" | "static" | "default", form |-> ...] (form = how the path is
\*   written - str / Path / (prefix, path) tuple - and means nothing here):
\*     "dirs"    the directory is an element of COMPONENTS.dirs
\*     "static"  the directory is an element of STATICFILES_DIRS
\*     "default" the directory is BASE_DIR/components
\*   a directory root without mentions is just a directory of the project.  App roots (kind "app") are
\*   <app package>/<name>, name = the last element of the prefix.
\* cfg.dirs \in {"unset", "set"}: COMPONENTS.dirs is not given / given; the given list is exactly the roots
\*   with a "dirs" mention, so it is EMPTY when there is none.  Likewise STATICFILES_DIRS is the list of roots
\*   with a "static" mention (Django's default: empty).
\* cfg.appdirs \in {"unset", "set"}, cfg.appnames the given list of names (may be empty).
\*   - COMPONENTS.dirs given: exactly its elements (none for the empty list), whatever STATICFILES_DIRS says;
\*   - not given: the legacy STATICFILES_DIRS when that is non-empty, else the default BASE_DIR/components;
\*   - app directories: <app>/<name> for every name of app_dirs (default <<"components">>; none for <<>>).
In(r, w) == \E i \in DOMAIN r.src : r.src[i].in = w
StaticGiven(roots) == \E k \in DOMAIN roots : roots[k].kind = "dirs" /\ In(roots[k], "static")
AppNames(cfg) == IF cfg.appdirs = "unset" THEN {"components"} ELSE {cfg.appnames[i] : i \in DOMAIN cfg.appnames}
Searched(cfg, roots, k) ==
  LET r == roots[k] IN
  IF r.kind = "app" THEN r.prefix[Len(r.prefix)] \in AppNames(cfg)
  ELSE \/ cfg.dirs = "set" /\ In(r, "dirs")
       \/ cfg.dirs = "unset" /\ In(r, "static")
       \/ cfg.dirs = "unset" /\ ~StaticGiven(roots) /\ In(r, "default")
Active(cfg, roots) == {k \in DOMAIN roots : Searched(cfg, roots, k)}
\* a configuration that can be written down: a "dirs" mention needs COMPONENTS.dirs to be given
CfgWellFormed(cfg, roots) == (\E k \in DOMAIN roots : roots[k].kind = "dirs" /\ In(roots[k], "dirs")) => cfg.dirs = "set"

(* ---- expected result of get_component_files(sfx) over several roots ---- *)
\* roots: sequence of root records; trees: sequence of trees (same length)
Row(k, root, e) == [k |-> k, parts |-> e.parts, dot |-> DotPath(root, e), cmpdot |-> DotDetermined(e)]
Expected(cfg, roots, trees, sfx) ==
  UNION {{Row(k, roots[k], e) : e \in {x \in trees[k] : Selected(x, sfx)}} : k \in Active(cfg, roots)}

(* ---- named deviations of the implementation ---------------------------- *)
\* Dev_DirectoryReturned: the glob result is not restricted to files, so a public directory whose
\* name ends with the suffix (any public directory for suffix=None) is returned as an entry.
\* The directories implied by file entries exist as well.
ImpliedDirs(tree) == UNION {{Dir(SubSeq(e.parts, 1, i)) : i \in 1..(Len(e.parts) - 1)} : e \in tree}
AllEntries(tree) == tree \cup ImpliedDirs(tree)
DevDirSelected(e, sfx) == HasSuffix(Name(e), sfx) /\ Public(e)
\* Dev_GlobMetaInPath: the directory path is pasted into the glob pattern unescaped, so a root whose
\* absolute path contains a glob character class yields nothing.  root.globmeta marks such roots.
DevExpected(cfg, roots, trees, sfx) ==
  UNION {{Row(k, roots[k], e) : e \in {x \in AllEntries(trees[k]) : DevDirSelected(x, sfx)}} :
           k \in {j \in Active(cfg, roots) : ~roots[j].globmeta}}
DevKeysFor(cfg, roots, trees, sfx) ==
  (IF \E k \in Active(cfg, roots) : \E x \in AllEntries(trees[k]) : x.kind = "dir" /\ DevDirSelected(x, sfx)
      /\ ~roots[k].globmeta
   THEN {"directory-matches-suffix:returned-as-file"} ELSE {})
  \cup (IF \E k \in Active(cfg, roots) : roots[k].globmeta /\ \E x \in trees[k] : Selected(x, sfx)
        THEN {"root-path-has-glob-metachar:nothing-found"} ELSE {})
=============================================================================
