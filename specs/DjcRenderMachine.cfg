SPECIFICATION Spec
CONSTANTS
  MaxNodes = 6
  MaxDepth = 2
  Cleanup = TRUE
  AllowFail = TRUE
INVARIANT Quiescent
INVARIANT WellFormed
PROPERTY Ordered
