--------------------------- MODULE LexerHandover ---------------------------
(***************************************************************************)
(* C09, layer B: the shape of django_components.util.template_parser.      *)
(*                                                                         *)
(*   parse_template = loop { Django pass over text[index_start:] ;         *)
(*                           first BLOCK token containing a quote =>       *)
(*                           quote-aware scan to the real "%}" ; resume }  *)
(*                                                                         *)
(* with the loop variables index_start (idx) and lineno_offset (off).      *)
(* Devs selects NAMED DEVIATIONS - defects of the code that the check has  *)
(* reproduced (KNOWN_FINDINGS.txt).  With Devs = {} the machine is the     *)
(* repaired algorithm and TLC checks that it refines layer A (Tokens) and  *)
(* keeps  off = newlines before idx ; with a deviation switched on TLC     *)
(* produces the counterexample sources that the harness replays.  The      *)
(* state-machine form (variables hsrc, hst; invariants OffsetInv,          *)
(* ResumeInv, Refines) is in MC_C09H.tla.                                  *)
(***************************************************************************)
EXTENDS Lexer

AllDevs == {"lineno-double-offset",      \* lineno_offset += <already offset lineno> ...   (adds the old offset twice)
            "lineno-stripped-newlines",  \* ... + newlines of the STRIPPED contents        (outer whitespace lost)
            "verbatim-quoted-reset",     \* Django pass restarted with verbatim = False after {% verbatim "q" %}
            "percent-swallows-closer"}    \* "%" not followed by "}" skips to the next quote, over the real "%}"

(***************************************************************************)
(* _detailed_tag_parser: i is the 1-based index of the next character      *)
(***************************************************************************)
RECURSIVE SkipString(_, _, _)
\* regex (?:\\.|[^q])* without DOTALL, greedy; returns the first index not consumed
SkipString(ch, i, q) ==
  IF i > Len(ch) THEN i
  ELSE IF ch[i] = BS /\ i < Len(ch) /\ ch[i + 1] # NL THEN SkipString(ch, i + 2, q)
  ELSE IF ch[i] # q THEN SkipString(ch, i + 1, q)
  ELSE i

RECURSIVE SkipUntil(_, _, _)
SkipUntil(ch, i, stops) == IF i > Len(ch) \/ ch[i] \in stops THEN i ELSE SkipUntil(ch, i + 1, stops)

RECURSIVE Scan(_, _, _)
\* result: err = "" and e = 0-based exclusive end of the tag, or the error raised
Scan(ch, i, devs) ==
  IF i > Len(ch) THEN [err |-> "unterminated-tag", e |-> 0]
  ELSE IF ch[i] \in {DQ, SQ}
       THEN LET j == SkipString(ch, i + 1, ch[i]) IN
            IF j <= Len(ch) /\ ch[j] = ch[i] THEN Scan(ch, j + 1, devs)
            ELSE [err |-> "unterminated-string", e |-> 0]
  ELSE IF ch[i] = PC
       THEN IF i < Len(ch) /\ ch[i + 1] = RB THEN [err |-> "", e |-> i + 1]
            ELSE IF "percent-swallows-closer" \in devs THEN Scan(ch, SkipUntil(ch, i, {DQ, SQ}), devs)
            ELSE Scan(ch, i + 1, devs)
  ELSE Scan(ch, SkipUntil(ch, i, {DQ, SQ, PC}), devs)

(***************************************************************************)
(* the loop                                                                *)
(***************************************************************************)
FirstBroken(toks) ==
  LET I == {i \in 1..Len(toks) : toks[i].t = "BLOCK" /\ HasQuote(toks[i].c)}
  IN IF I = {} THEN 0 ELSE MinOf(I)

HInit == [idx |-> 0, off |-> 0, verb |-> <<>>, toks |-> <<>>, done |-> FALSE, err |-> "", passes |-> 0, trail |-> <<>>]

Shift(raw, st) == [i \in 1..Len(raw) |-> [raw[i] EXCEPT !.l = @ + st.off, !.s = @ + st.idx, !.e = @ + st.idx]]

HStep(ch, st, devs, ml) ==
  IF st.idx >= Len(ch) THEN [st EXCEPT !.done = TRUE]
  ELSE
  LET sh == Shift(StockTokensV(SubSeq(ch, st.idx + 1, Len(ch)), ml, st.verb), st)
      k == FirstBroken(sh)
      \* what one pass shows from outside: where it started, and the hand-over it made (if any)
      ev == [idx |-> st.idx, hb |-> k # 0, bs |-> IF k = 0 THEN 0 ELSE sh[k].s, bl |-> IF k = 0 THEN 0 ELSE sh[k].l]
  IN IF k = 0 THEN [st EXCEPT !.toks = @ \o sh, !.done = TRUE, !.passes = @ + 1, !.trail = Append(@, ev)]
     ELSE LET b == sh[k]
              sc == Scan(ch, b.s + 3, devs)
          IN IF sc.err # "" THEN [st EXCEPT !.err = sc.err, !.done = TRUE, !.toks = <<>>, !.passes = @ + 1,
                                            !.trail = Append(@, ev)]
             ELSE LET span == SubSeq(ch, b.s + 1, sc.e)
                      content == TagContent(span)
                      nl == IF "lineno-stripped-newlines" \in devs THEN NLs(content) ELSE NLs(span)
                      off == IF "lineno-double-offset" \in devs THEN st.off + (b.l - 1) + nl ELSE (b.l - 1) + nl
                      verb == IF "verbatim-quoted-reset" \in devs THEN <<>>
                              ELSE IF OpensVerbatim(content) THEN ENDW \o content ELSE <<>>
                  IN [st EXCEPT !.toks = @ \o SubSeq(sh, 1, k - 1) \o <<Tok("BLOCK", content, b.s, sc.e, b.l)>>,
                                !.idx = sc.e, !.off = off, !.verb = verb, !.passes = @ + 1,
                                !.trail = Append(@, ev)]

RECURSIVE HLoop(_, _, _, _, _)
HLoop(ch, st, devs, ml, fuel) ==
  IF st.done \/ fuel = 0 THEN st ELSE HLoop(ch, HStep(ch, st, devs, ml), devs, ml, fuel - 1)

HRun(ch, devs, ml) == HLoop(ch, HInit, devs, ml, Len(ch) + 2)
HOut(ch, devs, ml) == LET r == HRun(ch, devs, ml) IN [err |-> r.err, toks |-> r.toks]

\* the hand-overs of a run: <<index_start after it, lineno_offset after it>> (observable: see vf/c09.py)
RECURSIVE HTrail(_, _, _, _, _)
HTrail(ch, st, devs, ml, fuel) ==
  IF st.done \/ fuel = 0 THEN <<>>
  ELSE LET n == HStep(ch, st, devs, ml) IN
       (IF n.done THEN <<>> ELSE <<[idx |-> n.idx, off |-> n.off]>>) \o HTrail(ch, n, devs, ml, fuel - 1)
HTrailOf(ch, devs, ml) == HTrail(ch, HInit, devs, ml, Len(ch) + 2)

=============================================================================
