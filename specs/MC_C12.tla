------------------------------- MODULE MC_C12 -------------------------------
(***************************************************************************)
(* Input space of C12, part (i): every string of at most MaxLen symbols    *)
(* over a syntax alphabet of TagArgs, built by AppendSym actions.  TLC's    *)
(* BFS visits every string exactly once; the harness reads them from TLC's  *)
(* state dump (-dump) and feeds each to the real parsers.  The admissible   *)
(* outcomes are ParseOutcomes: parsing *terminates* with success or         *)
(* TemplateSyntaxError - termination itself is observed on the real code,   *)
(* not modelled (level: exploration).                                       *)
(*   Which = "tag": content of a tag;  Which = "tpl": a template source.    *)
(***************************************************************************)
EXTENDS TagArgs

CONSTANTS MaxLen, Which
VARIABLE s

Alphabet == IF Which = "tag" THEN TagAlphabet ELSE TplAlphabet

Init == s = <<>>
AppendSym(c) == Len(s) < MaxLen /\ s' = s \o <<c>>
Next == \E c \in Alphabet : AppendSym(c)
Spec == Init /\ [][Next]_s

TypeOK == Len(s) <= MaxLen /\ \A i \in 1..Len(s) : s[i] \in Alphabet
=============================================================================
