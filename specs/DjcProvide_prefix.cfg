SPECIFICATION Spec
CONSTANTS
  N = 3
  Level = "page"
  SelfRef = FALSE
  OwnerRef = TRUE
  AllowFail = TRUE
INVARIANT InjectSound
INVARIANT Quiescent
INVARIANT RefsWellFormed
PROPERTY EntryDeletedOnlyWhenDone
