------------------------------- MODULE MC_C17 -------------------------------
(***************************************************************************)
(* Bounded instance of Finder: every directory tree of at most MaxFiles    *)
(* files over (DirIdx x NameIdx) (trees of more than one file are taken    *)
(* from SmallDirs x SmallIdx only), under every configuration of the       *)
(* catalogue.                                                              *)
(* TLC checks the theorems of Finder on every state and exports each state *)
(* as one JSON line: configuration, files with the expected exposure, and  *)
(* the lookup paths with what find() may answer (spec -> code replay).     *)
(***************************************************************************)
EXTENDS FinderPools, TLC, Json, IOUtils

CONSTANTS CfgIdx, NameIdx, SmallIdx, SmallDirs, DirIdx, MaxFiles

VARIABLES cid, tree          \* configuration index; set of [d, n] entries
mcVars == <<cid, tree>>

C == Cfgs[cid]
TreeStrs == {PathStr(e) : e \in tree}

MCInit == cid \in CfgIdx /\ tree = {}
Add(d, n) == LET e == [d |-> d, n |-> n] IN
             /\ e \notin tree
             /\ Cardinality(tree) < MaxFiles
             /\ tree = {} \/ \A x \in tree \cup {e} : x.n \in SmallIdx /\ x.d \in SmallDirs
             /\ tree' = tree \cup {e}
             /\ UNCHANGED cid
MCNext == \E d \in DirIdx, n \in NameIdx : Add(d, n)
MCSpec == MCInit /\ [][MCNext]_mcVars

(* ---- lookups ----------------------------------------------------------- *)
SpellingsOf(e) ==
  LET P == Parts(e) IN
  { Lookup(FALSE, P),                               \* canonical
    Lookup(FALSE, <<".">> \o P),
    Lookup(FALSE, <<"zz", "..">> \o P),
    Lookup(TRUE, RootParts \o P),                   \* absolute path of the file itself
    Lookup(FALSE, <<"..", "r0">> \o P),             \* out of the root and back in
    Lookup(FALSE, P \o <<"">>),                      \* trailing "/"  (normalised away by the join)
    Lookup(FALSE, P \o <<".">>),                     \* trailing "/."
    Lookup(FALSE, <<Names[e.n]>>) }                 \* base name asked for at the root
Escapes ==
  { Lookup(FALSE, <<"..", "outside.js">>),
    Lookup(TRUE, <<"outside.js">>),
    Lookup(FALSE, <<"..", "r0x", "a.js">>),         \* sibling whose name starts with the root's name
    Lookup(TRUE, <<"r0x", "a.js">>),
    Lookup(FALSE, <<"sub", "..", "..", "outside.js">>),
    Lookup(FALSE, <<"ghost.js">>) }                 \* allowed name, no such file
Lookups == Escapes \cup UNION {SpellingsOf(e) : e \in tree}
LookupRow(l) == [abs |-> l.abs, parts |-> l.parts, expect |-> Expect(l, TreeStrs, C),
                 rel |-> IF Inside(l) THEN RelOf(l) ELSE "",
                 \* classification only: what the named deviation predicts, and its input classes
                 dexpect |-> DevExpect(l, TreeStrs, C),
                 keys |-> IF Inside(l) /\ RelOf(l) \in TreeStrs THEN DevKeys(RelOf(l), C) ELSE {}]

(* ---- theorems, checked on every state ---------------------------------- *)
Theorems == /\ WellFormedCfg(C) /\ SuffixesOK(C)
            /\ \A e \in tree : FileTheorems(PathStr(e), C)
            /\ \A l \in Lookups : NoEscape(l, TreeStrs, C)
            /\ \A l \in Escapes : Expect(l, TreeStrs, C) = "hide"
            /\ \A e \in tree : Expect(Lookup(FALSE, Parts(e)), TreeStrs, C) =
                                 (IF Exposed(PathStr(e), C) THEN "find" ELSE "hide")
\* distinct entries are distinct files
PathsDistinct == Cardinality(TreeStrs) = Cardinality(tree)

Export ==
  Serialize(ToJson([cid |-> cid, cfg |-> C,
                    files |-> {FileRow(PathStr(e), C) : e \in tree},
                    lookups |-> {LookupRow(l) : l \in Lookups}]) \o "\n",
            IOEnv.OUT, [format |-> "TXT", charset |-> "UTF-8",
                        openOptions |-> <<"WRITE", "CREATE", "APPEND">>]).exitValue = 0
=============================================================================
