------------------------------ MODULE Trace_C08 ------------------------------
(***************************************************************************)
(* Trace validation (code -> spec) for C08.  IOEnv.IN names an ndjson file; *)
(* every line records one call of the real render_dependencies() or one     *)
(* pass of a response through the real ComponentDependencyMiddleware:       *)
(*   segs  - the document as it was assembled: [t, v, s] = kind, variant,   *)
(*           concrete text of the segment (one TLC character per code point *)
(*           of the text, or per byte when the body is not UTF-8)           *)
(*   mode, via, ity - type= argument, entry point, Python type of the input *)
(*   css, js, frag  - the generated blocks for this document's markers      *)
(*   jsh, cssb      - offsets of lower-case </head> tags inside js and of   *)
(*                    </body> tags inside css (layer B only)                *)
(*   res   - "ok" or "exc:<ExceptionClass>"                                 *)
(*   out, oty - the observed result text and its Python type                *)
(*   same  - pass-through only: same response object, headers unchanged     *)
(*   utf8  - whether the input bytes are valid UTF-8                        *)
(*   pay   - the texts the component classes of the document's markers      *)
(*           contribute verbatim (Component.js / .css, "safe" Media tags):  *)
(*           [k: block kind, s: text, at: where the harness saw it in the   *)
(*           block, 0-based, or -1]                                         *)
(* The observed text must be, character for character, the concretisation   *)
(* of one of the results DepsInsert admits.  A call that is not, is either  *)
(* explained exactly by a named deviation (verdict DEV + key: the observed  *)
(* text equals what the layer-B arithmetic of the current tree predicts)    *)
(* or REJECTed with the failing clauses.  Verdicts are total.               *)
(***************************************************************************)
EXTENDS DepsInsertImpl, TLC, Json, IOUtils

Traces == ndJsonDeserialize(IOEnv.IN)

VARIABLE tid
T == Traces[tid]

Doc(tr) == [i \in DOMAIN tr.segs |-> [t |-> tr.segs[i].t, v |-> tr.segs[i].v]]
Text(tr) == [i \in DOMAIN tr.segs |-> tr.segs[i].s]
EffMode(tr) == IF tr.via = "direct" THEN tr.mode ELSE "document"

Blk(tr) == [css |-> tr.css, js |-> tr.js, frag |-> tr.frag,
            jsh |-> {tr.jsh[i] : i \in DOMAIN tr.jsh}, cssb |-> {tr.cssb[i] : i \in DOMAIN tr.cssb}]

AdmissibleTexts(tr) ==
  {Flat(Doc(tr), o, Text(tr), Blk(tr), "") : o \in AdmissibleVia(Doc(tr), tr.via, tr.mode)}

\* "bytes" ties the observed text to the blocks (the blocks are contiguous sub-texts of it wherever the
\* specification inserts them); "payload" ties the blocks to the components' own texts: for every kind
\* of block the call inserts, each carried text is in the block byte for byte.
Failing(tr) ==
  {c \in {"raised", "bytes", "type", "untouched", "payload"} :
     CASE c = "raised"    -> tr.res # "ok"
       [] c = "bytes"     -> tr.res = "ok" /\ tr.out \notin AdmissibleTexts(tr)
       [] c = "payload"   -> tr.res = "ok" /\ NotCarried(Blk(tr), tr.pay, InsertedKinds(Doc(tr), tr.via, tr.mode)) # {}
       [] c = "type"      -> tr.res = "ok" /\ tr.oty # ExpectedType(tr.via, tr.ity)
       [] c = "untouched" -> tr.res = "ok" /\ tr.via \in {"mw_other", "mw_stream"} /\ ~tr.same}

(* ---- named deviations of the current tree ------------------------------- *)
\* A failing record is a KNOWN deviation only if what was observed is exactly what the
\* layer-B model of a tree with the deviations D (and nothing else wrong) predicts; the
\* smallest such D (in the order below) gives the finding key.
Rewrites(tr) == tr.via \in {"direct", "mw_html"}
Predicted(tr, D) ==
  LET fixes == Devs \ D IN
  IF "nonutf8" \in D /\ tr.ity = "bytes" /\ ~tr.utf8 /\ ImplDecodes(Doc(tr), EffMode(tr), fixes)
  THEN [res |-> "exc:UnicodeDecodeError", out |-> ""]
  ELSE [res |-> "ok", out |-> ImplOut(Doc(tr), Text(tr), Blk(tr), "", EffMode(tr), fixes)]
Explains(tr, D) ==
  /\ Rewrites(tr) /\ Failing(tr) \subseteq {"bytes", "raised"}
  /\ Predicted(tr, D).res = tr.res
  /\ tr.res = "ok" => Predicted(tr, D).out = tr.out

\* candidate explanations: every non-empty set of deviations; the smallest one wins (ties
\* broken by a fixed weight).  The harness turns the names into the finding key:
\*   offset    -> body-end-before-head-end:js-offset-shifted
\*   multiattr -> placeholder-multi-id-attrs:left-in-place
\*   nonutf8   -> non-utf8-bytes:unicode-decode-error
\*   blocktag  -> end-tag-inside-generated-block:insertion-lands-in-block
Weight(D) == 100 * Cardinality(D) + (IF "offset" \in D THEN 1 ELSE 0) + (IF "multiattr" \in D THEN 2 ELSE 0)
               + (IF "nonutf8" \in D THEN 4 ELSE 0) + (IF "blocktag" \in D THEN 8 ELSE 0)

Verdict(tr) ==
  IF Failing(tr) = {} THEN <<"ACCEPT", tr.id>>
  ELSE LET S == {D \in (SUBSET Devs) \ {{}} : Explains(tr, D)} IN
       IF S # {} THEN <<"DEV", tr.id, CHOOSE D \in S : \A D2 \in S : Weight(D) <= Weight(D2)>>
       ELSE <<"REJECT", tr.id, Failing(tr)>>

TrInit == tid = 1
TrNext == tid <= Len(Traces) /\ PrintT(Verdict(T)) /\ tid' = tid + 1
TrSpec == TrInit /\ [][TrNext]_tid
=============================================================================
