------------------------------ MODULE DjcShared ------------------------------
(***************************************************************************)
(* Concurrent renders over the shared provide registries (C07).  Threads   *)
(* execute workloads; one step = one critical section of                   *)
(* perfutil/provide.py (the functions are atomic under the module lock)    *)
(* plus the unlocked code that follows it up to the next section:          *)
(*   enter  - {% provide %}: store the data, provider references itself    *)
(*   regowner - ... and the component whose template contains the tag      *)
(*            references it too (until that component is rendered)         *)
(*   reg    - component prepared: register_provide_reference, then         *)
(*            get_context_data calls inject() (or raises: "regfail")       *)
(*   unreg  - component finished / failed component releases itself        *)
(*   exit   - {% endprovide %} (also on the error path): provider drops    *)
(*            its own reference, cleanup                                   *)
(* TLC explores every interleaving of the threads' steps.                  *)
(* GlobalDiff = TRUE is the code before the fix recorded in                *)
(* KNOWN_FINDINGS.txt (a failing render unregisters every reference id     *)
(* that appeared since its provider started - other threads' too): TLC     *)
(* refutes InjectSound for it (vacuity guard).                             *)
(***************************************************************************)
EXTENDS Naturals, Sequences, FiniteSets

CONSTANTS Threads, Workloads, GlobalDiff      \* Workloads: thread -> workload name

Pid(t) == <<"p", t>>
Cid(t) == <<"c", t>>
Hid(t) == <<"h", t>>

\* step = <<kind, id>>
Program(t) ==
  CASE Workloads[t] = "ok"     -> << <<"enter", Pid(t)>>, <<"reg", Cid(t)>>, <<"unreg", Cid(t)>>, <<"exit", Pid(t)>> >>
    [] Workloads[t] = "fail"   -> << <<"enter", Pid(t)>>, <<"regfail", Cid(t)>>, <<"unreg", Cid(t)>>, <<"exitfail", Pid(t)>> >>
    [] Workloads[t] = "host"   -> << <<"regnone", Hid(t)>>, <<"enter", Pid(t)>>, <<"regowner", Hid(t)>>, <<"reg", Cid(t)>>, <<"exit", Pid(t)>>,
                                     <<"unreg", Cid(t)>>, <<"unreg", Hid(t)>> >>
    [] Workloads[t] = "noprov" -> << <<"regnone", Cid(t)>>, <<"unreg", Cid(t)>> >>

VARIABLES cache, refs, allIds, pcs, before, injects, hist
vars == <<cache, refs, allIds, pcs, before, injects, hist>>

Init == /\ cache = {} /\ refs = <<>> /\ allIds = {}
        /\ pcs = [t \in Threads |-> 1] /\ before = [t \in Threads |-> {}]
        /\ injects = <<>> /\ hist = <<>>

St(c, r, a) == [cache |-> c, refs |-> r, allIds |-> a]
AddRef(r, p, id) == IF p \in DOMAIN r THEN [r EXCEPT ![p] = @ \cup {id}]
                    ELSE [q \in DOMAIN r \cup {p} |-> IF q = p THEN {id} ELSE r[q]]
\* register_provide_reference: `provs` = the providers whose key the component's context holds
Register(s, id, provs) ==
  IF s.cache = {} THEN s
  ELSE LET RECURSIVE Add(_, _)
           Add(r, ps) == IF ps = {} THEN r ELSE LET p == CHOOSE x \in ps : TRUE IN Add(AddRef(r, p, id), ps \ {p})
       IN St(s.cache, Add(s.refs, provs), s.allIds \cup {id})
Unregister(s, id) ==
  IF id \notin s.allIds THEN s
  ELSE LET r1 == [q \in DOMAIN s.refs |-> s.refs[q] \ {id}]
           dead == {q \in DOMAIN r1 : id \in s.refs[q] /\ r1[q] = {}} IN
       St(s.cache \ dead, [q \in DOMAIN r1 \ dead |-> r1[q]], s.allIds \ {id})
RECURSIVE UnregisterAll(_, _)
UnregisterAll(s, ids) ==
  IF ids = {} THEN s ELSE LET id == CHOOSE x \in ids : TRUE IN UnregisterAll(Unregister(s, id), ids \ {id})
Cleanup(s, p) ==
  IF p \in DOMAIN s.refs /\ s.refs[p] = {} THEN St(s.cache \ {p}, [q \in DOMAIN s.refs \ {p} |-> s.refs[q]], s.allIds)
  ELSE IF p \notin DOMAIN s.refs /\ p \in s.cache THEN St(s.cache \ {p}, s.refs, s.allIds)
  ELSE s

Cur == St(cache, refs, allIds)
Becomes(s) == cache' = s.cache /\ refs' = s.refs /\ allIds' = s.allIds

Step(t) ==
  /\ pcs[t] <= Len(Program(t))
  /\ LET st == Program(t)[pcs[t]]
         kind == st[1]
         id == st[2] IN
     /\ CASE kind = "enter" ->
               /\ Becomes(St(cache \cup {id}, AddRef(refs, id, id), allIds \cup {id}))
               /\ before' = [before EXCEPT ![t] = allIds] /\ UNCHANGED injects
          [] kind \in {"reg", "regfail"} ->
               LET s1 == Register(Cur, id, {Pid(t)}) IN
               /\ Becomes(s1) /\ injects' = Append(injects, <<t, Pid(t) \in s1.cache>>) /\ UNCHANGED before
          [] kind = "regnone" -> Becomes(Register(Cur, id, {})) /\ UNCHANGED <<before, injects>>
          \* ProvideNode.render: the component whose template holds the tag references the data
          [] kind = "regowner" -> Becomes(Register(Cur, id, {Pid(t)})) /\ UNCHANGED <<before, injects>>
          [] kind = "unreg" -> Becomes(Unregister(Cur, id)) /\ UNCHANGED <<before, injects>>
          [] kind = "exit" -> Becomes(Cleanup(Unregister(Cur, id), id)) /\ UNCHANGED <<before, injects>>
          [] kind = "exitfail" ->
               /\ Becomes(Cleanup(Unregister(IF GlobalDiff THEN UnregisterAll(Cur, allIds \ before[t]) ELSE Cur, id), id))
               /\ UNCHANGED <<before, injects>>
     /\ pcs' = [pcs EXCEPT ![t] = @ + 1]
     /\ hist' = Append(hist, t)

Next == \E t \in Threads : Step(t)
Spec == Init /\ [][Next]_vars

Finished == \A t \in Threads : pcs[t] > Len(Program(t))
\* each render behaves as when run alone: inject() inside its own provider finds the data
InjectSound == \A k \in 1..Len(injects) : injects[k][2]
\* no residue once all renders have finished
Quiescent == Finished => cache = {} /\ refs = <<>> /\ allIds = {}
\* a provider is referenced only by ids of its own thread
NoCrossTalk == \A p \in DOMAIN refs : \A x \in refs[p] : x[2] = p[2]
=============================================================================
