------------------------------- MODULE MC_C19 -------------------------------
(***************************************************************************)
(* Bounded instance of ScriptEndpoint: every history of at most MaxLen     *)
(* actions is one distinct state (`hist`), exported as one JSON line with  *)
(* what the specification expects after its last action (spec -> code).    *)
(*                                                                         *)
(* Named deviations (Devs): behaviour of the current code that breaks C19, *)
(* described exactly, so that a replay that follows a deviation is         *)
(* recognised by name (finding key) and can continue from the deviant      *)
(* state.  Invariants are checked on untainted histories only.             *)
(***************************************************************************)
EXTENDS ScriptEndpoint, TLC, Json, IOUtils

CONSTANTS NC,        \* number of classes
          ConfNum,   \* class c has code (ConfNum \div 8^(c-1)) % 8: bit0 js, bit1 css, bit2 vars
          Pages,     \* set of pages (sets of classes) a render may use
          Modes,     \* subset of {"document", "fragment"}
          MaxLen,    \* histories of at most MaxLen actions
          Ext,       \* subset of {"split", "redef", "url"}: extra actions
          UrlCfgs,   \* URL configurations ("<script prefix>/<URLconf>") SetUrl may activate
          MaxVer,    \* bound on redefinitions
          Devs,      \* enabled named deviations
          ReqKinds, ReqInputs, ReqMethods   \* request alphabet of the exported table

VARIABLES hist, tainted, last
mcVars == <<conf, cache, ver, held, kept, emitted, resp, url, eloc, hist, tainted, last>>

Pow8(n) == IF n = 0 THEN 1 ELSE IF n = 1 THEN 8 ELSE IF n = 2 THEN 64 ELSE IF n = 3 THEN 512 ELSE 4096
Dec(x) == [js |-> x % 2 = 1, css |-> (x \div 2) % 2 = 1, vars |-> (x \div 4) % 2 = 1]
ConfC == [c \in 1..NC |-> Dec((ConfNum \div Pow8(c - 1)) % 8)]

SetToSeq(S) == LET RECURSIVE go(_)
                   go(T) == IF T = {} THEN <<>>
                            ELSE LET x == CHOOSE y \in T : \A z \in T : y <= z IN <<x>> \o go(T \ {x})
               IN go(S)

Act(op, page, mode, c, res, u) == [op |-> op, page |-> SetToSeq(page), mode |-> mode, c |-> c, res |-> res, u |-> u]

MCInit == /\ SEInit(ConfC) /\ hist = <<>> /\ tainted = FALSE
          /\ last = [pcache |-> {}, name |-> ""]

Log(a, dev) == /\ Len(hist) < MaxLen
               /\ hist' = Append(hist, a)
               /\ tainted' = (tainted \/ dev # "")
               /\ last' = [pcache |-> cache, name |-> dev]

(* Deviation: render_dependencies(type="fragment") on HTML rendered before an   *)
(* eviction emits the URLs without making the scripts available again.          *)
DevFinish == "prerendered-html-finished-after-eviction:fragment-url-404"
Dev_FinishEmitsUnserved(page) ==
  /\ page \in held
  /\ ~(Need(conf, page) \subseteq cache)
  /\ emitted' = Need(conf, page) /\ resp' = NoResp
  /\ UNCHANGED <<conf, cache, ver, held, kept>>
  /\ UrlKeep

MCNext ==
  \/ \E p \in Pages, m \in Modes : Render(p, m) /\ Log(Act("render", p, m, 0, "ok", ""), "")
  \/ ClearCache /\ Log(Act("clear", {}, "", 0, "ok", ""), "")
  \/ /\ "split" \in Ext
     /\ \/ \E p \in Pages : p \notin held /\ Prerender(p) /\ Log(Act("prerender", p, "", 0, "ok", ""), "")
        \/ \E p \in Pages, m \in Modes : FinishOk(p, m) /\ Log(Act("finish", p, m, 0, "ok", ""), "")
        \/ \E p \in Pages, m \in Modes : FinishFail(p, m) /\ Log(Act("finish", p, m, 0, "fail", ""), "")
        \/ /\ DevFinish \in Devs
           /\ \E p \in Pages : Dev_FinishEmitsUnserved(p) /\ Log(Act("finish", p, "fragment", 0, "dev", ""), DevFinish)
  \/ /\ "redef" \in Ext
     /\ \E c \in 1..NC : /\ ver[c] < MaxVer /\ KindsOf(conf, c) # {}
                         /\ Redefine(c) /\ Log(Act("redefine", {}, "", c, "ok", ""), "")

  \/ /\ "url" \in Ext
     /\ \E u \in UrlCfgs : u # url /\ SetUrl(u) /\ Log(Act("seturl", {}, "", 0, "ok", u), "")

MCSpec == MCInit /\ [][MCNext]_mcVars

(* ---- checked on every untainted history ---------------------------------- *)
Reqs == {[c |-> c, k |-> k, i |-> i, m |-> m] : c \in 0..NC, k \in ReqKinds, i \in ReqInputs, m \in ReqMethods}
InvEmittedAreServed == tainted \/ EmittedAreServed
InvMustServeDetermined == MustServeDetermined
InvAnswersSane == AnswersSane(Reqs)
InvKeptCoversCache == tainted \/ \A e \in cache : \E p \in kept : p[1] = e
MCRenderRecaches == [][tainted' \/ (emitted' # {} => emitted' \subseteq cache' /\ eloc' = url')]_mcVars
MCOnlyClearDrops == [][cache \subseteq cache' \/ cache' = {} \/ ver' # ver]_mcVars

(* ---- deviations of single answers (no state change) ---------------------- *)
\* the cache-entry shortcut keeps the code of an earlier definition of the class
DevStale == "class-redefined-same-import-path:stale-code-served"
\* a kind of the form <kind>:<valid input hash> reaches a cached vars entry and the view fails
DevKind == "kind-embeds-cached-input-hash:500"
IsVarsKind(k) == k \in {"js:vars", "css:vars"}
BaseKind(k) == IF k = "js:vars" THEN "js" ELSE "css"

DevAnswer(r) ==
  IF /\ DevStale \in Devs /\ r.m = "GET" /\ Exists(conf, r) /\ r.i = "none" /\ EntryOf(r) \in cache
     /\ \E p \in kept : p[1] = EntryOf(r) /\ p[2] < ver[r.c]
  THEN [name |-> DevStale, out |-> <<200, (CHOOSE p \in kept : p[1] = EntryOf(r))[2]>>]
  ELSE IF /\ DevKind \in Devs /\ r.m = "GET" /\ r.c \in 1..NC /\ IsVarsKind(r.k) /\ r.i = "none"
          /\ \E p \in kept : p[1] = <<r.c, BaseKind(r.k), "vars">>
  THEN [name |-> DevKind, out |-> <<500, 0>>]
  ELSE [name |-> "", out |-> <<0, 0>>]

\* compact table row: the request, the admissible answers as <<status, version>> (class, kind and
\* which-script of a 200 are those of the request - see AnswersSane), the deviation if one applies
Row(r) == LET d == DevAnswer(r) IN
  <<r.c, r.k, r.i, r.m, {<<a.st, a.v>> : a \in Adm(conf, cache, ver, r)}, d.name, d.out>>
Table == {Row(r) : r \in Reqs}

Export ==
  \/ hist = <<>>
  \/ Serialize(ToJson([hist |-> hist, conf |-> conf, emitted |-> emitted, must |-> cache,
                       ver |-> ver, dev |-> last.name, tainted |-> tainted, url |-> url, eloc |-> eloc,
                       dead |-> IF last.name = DevFinish THEN emitted \ last.pcache ELSE {},
                       table |-> Table, ct |-> CT]) \o "\n",
               IOEnv.OUT, [format |-> "TXT", charset |-> "UTF-8",
                           openOptions |-> <<"WRITE", "CREATE", "APPEND">>]).exitValue = 0
=============================================================================
