----------------------------- MODULE TypedInputs -----------------------------
(***************************************************************************)
(* X02 - runtime validation of typed component inputs / outputs.           *)
(*                                                                         *)
(* Contract, from docs/concepts/advanced/typing_and_validation.md and the  *)
(* docstrings of EmptyTuple / EmptyDict (util/types.py):                   *)
(*  [D1] "The Component class optionally accepts type parameters that      *)
(*       allow you to specify the types of args, kwargs, slots, and data:  *)
(*       class Button(Component[Args, Kwargs, Slots, Data, JsData,         *)
(*       CssData])" - "Args - Must be a Tuple or Any; Kwargs / Data /      *)
(*       Slots - Must be a TypedDict or Any"; "Data returned from          *)
(*       get_context_data"; "maybe_var: NotRequired[int] # May be ommited".*)
(*  [D2] "In Python 3.11 and later, when you specify the component types,  *)
(*       you will get also runtime validation of the inputs you pass to    *)
(*       Component.render or Component.render_to_response." ... "Error:    *)
(*       First arg must be int, got float / Error: Key "another" is        *)
(*       missing ... This would raise a TypeError: Component 'Button'      *)
(*       expected positional argument at index 0 to be <class 'int'>, got  *)
(*       1.25 of type <class 'float'>".                                    *)
(*  [D3] "In case you need to skip these errors, you can either set the    *)
(*       faulty member to Any, e.g. Args = Tuple[Any, str]. Or you can     *)
(*       replace Args with Any altogether, to skip the validation of args  *)
(*       ... Same applies to kwargs, data, and slots."                     *)
(*  [D4] "To declare that a component accepts no Args, Kwargs, etc, you    *)
(*       can use EmptyTuple and EmptyDict"; EmptyTuple: "the args          *)
(*       parameter will raise type error if args is anything else than an  *)
(*       empty tuple ... Omitting args is also fine"; EmptyDict: same for  *)
(*       kwargs / slots / data.                                            *)
(*  [D5] "For *args, set a positional argument that accepts a list of      *)
(*       values: Args = Tuple[List[str]]" ... "extra: Dict[str, any]":     *)
(*       generic containers are legal member types.                        *)
(*  [D6] Slots: "Use SlotFunc for slot functions ... my_slot:              *)
(*       NotRequired[SlotFunc[MySlotData]]"; "SlotContent == Union[str,    *)
(*       SafeString] ... another_slot: SlotContent".                       *)
(*                                                                         *)
(* What the docs do NOT say is left open (the spec admits both answers):   *)
(*  - how deep a generic member is checked: a value whose *outer* class    *)
(*    fits (a list for List[str]) but whose elements do not, may be        *)
(*    accepted or rejected (zone);  a value that IS of the declared type   *)
(*    by `typing` semantics must be accepted, a value whose outer class    *)
(*    does not fit must be rejected;                                       *)
(*  - which of several offending items the TypeError names;                *)
(*  - a Slot instance / a function where SlotFunc / SlotContent is         *)
(*    declared (zone, see MemberOf / OuterFits).                           *)
(* JsData / CssData are not validated (docs: "Kwargs, slots, and data      *)
(* validation"); variable-length tuples are "not supported with the typed  *)
(* components" and not generated.                                          *)
(***************************************************************************)
EXTENDS Naturals, Sequences, FiniteSets, TLC

(* ---------------------------------------------------------------- type terms *)
\* a term is [k |-> kind, a |-> <<sub-terms>>]
T(k, a) == [k |-> k, a |-> a]
TAny   == T("any", <<>>)
TInt   == T("int", <<>>)
TStr   == T("str", <<>>)
TBool  == T("bool", <<>>)
TNone  == T("none", <<>>)
TOpt(t)      == T("opt", <<t>>)              \* Optional[t]
TUnion(ts)   == T("union", ts)               \* Union[ts[1], ts[2], ...]
TList(t)     == T("list", <<t>>)             \* List[t]
TDict(k, v)  == T("dict", <<k, v>>)          \* Dict[k, v]
TTuple(ts)   == T("tuple", ts)               \* Tuple[ts[1], ...] (fixed length), only as a member
TSlotFunc    == T("slotfunc", <<>>)          \* SlotFunc / SlotFunc[SlotData]
TSlotContent == T("slotcontent", <<>>)       \* SlotContent

(* ---------------------------------------------------------------- values *)
\* a value is [k |-> kind, n |-> payload, e |-> <<children>>]; a dict has children of kind "pair"
V(k, n, e) == [k |-> k, n |-> n, e |-> e]
VInt(n)   == V("int", n, <<>>)
VStr(n)   == V("str", n, <<>>)               \* the n-th string of the harness
VSafe(n)  == V("safestr", n, <<>>)           \* django SafeString (a str subclass)
VBool(n)  == V("bool", n, <<>>)
VFloat(n) == V("float", n, <<>>)             \* n + 0.5
VNone     == V("none", 0, <<>>)
VList(e)  == V("list", 0, e)
VTuple(e) == V("tuple", 0, e)
VPair(x, y) == V("pair", 0, <<x, y>>)
VDict(ps) == V("dict", 0, ps)
VFunc     == V("func", 0, <<>>)              \* lambda ctx, data, ref: "..."
VSlot     == V("slot", 0, <<>>)              \* django_components.Slot instance

(* ---------------------------------------------------------------- Accepts *)
\* v is a value of type t by `typing` semantics (bool is an int, SafeString is a str).
\* For the two slot types: what the documentation says they are for ([D6]).
RECURSIVE MemberOf(_, _)
MemberOf(t, v) ==
  CASE t.k = "any"   -> TRUE
    [] t.k = "int"   -> v.k \in {"int", "bool"}
    [] t.k = "str"   -> v.k \in {"str", "safestr"}
    [] t.k = "bool"  -> v.k = "bool"
    [] t.k = "none"  -> v.k = "none"
    [] t.k = "opt"   -> v.k = "none" \/ MemberOf(t.a[1], v)
    [] t.k = "union" -> \E i \in DOMAIN t.a : MemberOf(t.a[i], v)
    [] t.k = "list"  -> v.k = "list" /\ \A i \in DOMAIN v.e : MemberOf(t.a[1], v.e[i])
    [] t.k = "dict"  -> v.k = "dict" /\ \A i \in DOMAIN v.e : /\ MemberOf(t.a[1], v.e[i].e[1])
                                                               /\ MemberOf(t.a[2], v.e[i].e[2])
    [] t.k = "tuple" -> /\ v.k = "tuple" /\ Len(v.e) = Len(t.a)
                        /\ \A i \in DOMAIN t.a : MemberOf(t.a[i], v.e[i])
    [] t.k = "slotfunc"    -> v.k = "func"
    [] t.k = "slotcontent" -> v.k \in {"str", "safestr"}
    [] OTHER -> FALSE

\* the outer class of v fits t (containers are not looked into; Optional / Union are not
\* containers, their alternatives are tried).  A value that does not even fit outwardly must be
\* rejected; one that fits outwardly but is not a member is the unspecified zone.
RECURSIVE OuterFits(_, _)
OuterFits(t, v) ==
  CASE t.k \in {"any", "int", "str", "bool", "none"} -> MemberOf(t, v)
    [] t.k = "opt"   -> v.k = "none" \/ OuterFits(t.a[1], v)
    [] t.k = "union" -> \E i \in DOMAIN t.a : OuterFits(t.a[i], v)
    [] t.k = "list"  -> v.k = "list"
    [] t.k = "dict"  -> v.k = "dict"
    [] t.k = "tuple" -> v.k = "tuple"
    [] t.k = "slotfunc"    -> v.k \in {"func", "slot"}
    [] t.k = "slotcontent" -> v.k \in {"str", "safestr", "func", "slot"}
    [] OTHER -> FALSE

\* the verdicts the contract admits for one (member type, value) pair
Verdicts(t, v) == IF MemberOf(t, v) THEN {"accept"}
                  ELSE IF ~OuterFits(t, v) THEN {"reject"}
                  ELSE {"accept", "reject"}

(* ---------------------------------------------------------------- component level *)
\* A case is [decl, call]:
\*   decl.args  = [any |-> BOOLEAN, m |-> <<member types>>]        (m = <<>>: EmptyTuple)
\*   decl.kwargs / .slots / .data = [any |-> BOOLEAN, f |-> <<[name, req, t]>>]   (f = <<>>: EmptyDict)
\*   call.args  = <<values>>;  call.kwargs / .slots / .data = <<[key, v]>> (distinct keys);
\*   call.data is what get_context_data returns.
\* Keys of the three dictionaries are disjoint, so "<section>:<key>" / "args:<index>" /
\* "args:count" identify the offending item.
Keys(es)     == {es[i].key : i \in DOMAIN es}
ValOf(es, k) == es[CHOOSE i \in DOMAIN es : es[i].key = k].v
Names(fs)    == {fs[i].name : i \in DOMAIN fs}
MinOf(S)     == CHOOSE x \in S : \A y \in S : x <= y
Item(sec, at) == sec \o ":" \o at

\* offences: [id, must]  (must = the contract demands a TypeError; ~must = zone)
ArgsOffences(d, a) ==
  IF d.any THEN {}
  ELSE (IF Len(a) # Len(d.m) THEN {[id |-> "args:count", must |-> TRUE]} ELSE {})
       \cup {[id |-> Item("args", ToString(i - 1)), must |-> ~OuterFits(d.m[i], a[i])] :
               i \in {j \in DOMAIN d.m : j <= Len(a) /\ ~MemberOf(d.m[j], a[j])}}

DictOffences(sec, d, es) ==
  IF d.any THEN {}
  ELSE {[id |-> Item(sec, d.f[i].name), must |-> TRUE] :
          i \in {j \in DOMAIN d.f : d.f[j].req /\ d.f[j].name \notin Keys(es)}}            \* missing
       \cup {[id |-> Item(sec, k), must |-> TRUE] : k \in Keys(es) \ Names(d.f)}            \* unexpected
       \cup {[id |-> Item(sec, d.f[i].name), must |-> ~OuterFits(d.f[i].t, ValOf(es, d.f[i].name))] :
               i \in {j \in DOMAIN d.f : /\ d.f[j].name \in Keys(es)
                                         /\ ~MemberOf(d.f[j].t, ValOf(es, d.f[j].name))}}  \* wrong type

Offences(c) == ArgsOffences(c.decl.args, c.call.args)
               \cup DictOffences("kwargs", c.decl.kwargs, c.call.kwargs)
               \cup DictOffences("slots", c.decl.slots, c.call.slots)
               \cup DictOffences("data", c.decl.data, c.call.data)

MayRender(c)  == \A x \in Offences(c) : ~x.must       \* rendering normally is admissible
MayName(c)    == {x.id : x \in Offences(c)}           \* a TypeError may name any of these
MustName(c)   == {x.id : x \in {y \in Offences(c) : y.must}}

\* an observation: [o, named, same, comp]
\*   o      "ok" (rendered) / "type" (TypeError) / "other" (any other exception)
\*   named  the items the error message mentions
\*   same   rendered output and the inputs seen by get_context_data equal those of the
\*          untyped twin (class X(Component) with the same body)
\*   comp   the error message names the component
Conforms(c, obs) ==
  \/ obs.o = "ok" /\ MayRender(c) /\ obs.same
  \/ obs.o = "type" /\ obs.comp /\ obs.named \cap MayName(c) # {}

(* ---------------------------------------------------------------- theorems (checked by TLC) *)
MemberImpliesOuterFits(t, v) == MemberOf(t, v) => OuterFits(t, v)
VerdictDetermined(t, v)      == Verdicts(t, v) # {}
AnySkips(v)                  == Verdicts(TAny, v) = {"accept"}                          \* [D3]
OptionalIsUnionWithNone(t, v) ==
  /\ MemberOf(TOpt(t), v) = MemberOf(TUnion(<<t, TNone>>), v)
  /\ OuterFits(TOpt(t), v) = OuterFits(TUnion(<<t, TNone>>), v)
UnionCommutes(t, u, v)       == MemberOf(TUnion(<<t, u>>), v) = MemberOf(TUnion(<<u, t>>), v)
UnionWidens(t, u, v)         == MemberOf(t, v) => MemberOf(TUnion(<<t, u>>), v)
AllAnyAlwaysRenders(c) ==
  (c.decl.args.any /\ c.decl.kwargs.any /\ c.decl.slots.any /\ c.decl.data.any) => Offences(c) = {}
SomeAnswerAdmitted(c) == MayRender(c) \/ MayName(c) # {}
=============================================================================
