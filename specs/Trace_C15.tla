------------------------------ MODULE Trace_C15 ------------------------------
(***************************************************************************)
(* Trace validation (code -> spec) for the component registries.           *)
(* IOEnv.IN names an ndjson file; every line is one recorded history       *)
(*   [id, cfg, events]                                                     *)
(* of calls on real ComponentRegistry objects built for configuration cfg  *)
(* (same format as MC_C15's configurations).  After every call the harness *)
(* logged what the call returned / raised and the projection of the real   *)
(* state: registry.all() of every registry and the tag table of every      *)
(* Library (tag -> "builtin" | "user" | "comp").                           *)
(*                                                                         *)
(* Every event must be explained by an outcome RegistryOps admits for that *)
(* call.  Where the specification admits several outcomes whose difference *)
(* is not (yet) visible in the projection, all of them are kept: `ws` is   *)
(* the set of worlds compatible with the history so far.  Verdicts are     *)
(* total: one ACCEPT / REJECT line per trace; a REJECT names, for every    *)
(* candidate outcome, the clauses it fails.                                *)
(*                                                                         *)
(* With cfg.dev = TRUE (second pass over traces the specification proper   *)
(* has rejected) the named deviations of RegistryOps!DevOutcomes are       *)
(* admitted too; every kept world remembers which deviations it needed and *)
(* a <<"DEV", id, names>> line precedes the ACCEPT line.                   *)
(***************************************************************************)
EXTENDS RegistryOps, RegistryIO, TLC, Json, IOUtils

Traces == ndJsonDeserialize(IOEnv.IN)

VARIABLES tid, l, k, ws
trVars == <<tid, l, k, ws>>

Events == Traces[tid].events

\* ws: set of [w |-> world, used |-> names of the deviations needed to get there]
Start(kk) == {[w |-> InitWorld(kk), used |-> {}]}

Load(i) == IF i <= Len(Traces)
           THEN LET kk == NormCfg(Traces[i].cfg) IN k' = kk /\ ws' = Start(kk)
           ELSE k' = k /\ ws' = {}

TrInit == /\ tid = 1 /\ l = 1
          /\ IF Len(Traces) >= 1
             THEN LET kk == NormCfg(Traces[1].cfg) IN k = kk /\ ws = Start(kk)
             ELSE k = 0 /\ ws = {}

NextTrace == tid' = tid + 1 /\ l' = 1 /\ Load(tid + 1)

CallOf(e) == [op |-> e.op, r |-> e.r, n |-> e.n, c |-> e.c]

\* observed tag table of library lb
ObsLib(e, lb) == LET ts == {x \in Rng(e.libs) : x[1] = lb} IN
                 [t \in {x[2] : x \in ts} |-> (CHOOSE x \in ts : x[2] = t)[3]]

Failing(o, e) ==
  {c \in {"res", "cls", "yes", "all", "reg", "lib", "inv"} :
     CASE c = "res" -> o.res # e.res
       [] c = "cls" -> o.cls # e.cls
       [] c = "yes" -> o.yes # e.yes
       [] c = "all" -> o.all # Rng(e.all)
       [] c = "reg" -> {<<x[1], x[2], x[3]>> : x \in RegJ(o.reg)} # Rng(e.regs)
       [] c = "lib" -> \/ {x[1] : x \in Rng(e.libs)} \ Libs(k) # {}
                       \/ \E lb \in Libs(k) : ~LibAdmits(k, o, lb, ObsLib(e, lb))
       [] c = "inv" -> ~k.dev /\ ~(WorldTypeOK(k, o) /\ TagIffUsedP(k, o) /\ ProtectedUntouchedP(k, o))}

\* successors of one kept world: [o |-> outcome, used |-> deviations needed]
Succ(x, call) ==
  {[o |-> o, used |-> x.used] : o \in Promised(k, x.w, call)} \cup
  (IF k.dev THEN {[o |-> d.o, used |-> x.used \cup {d.name}] : d \in DevOutcomes(k, x.w, call)} ELSE {})

Step == /\ tid <= Len(Traces) /\ l <= Len(Events)
        /\ LET e     == Events[l]
               cands == UNION {Succ(x, CallOf(e)) : x \in ws}
               good  == {y \in cands : Failing(y.o, e) = {}}
           IN IF good # {}
              THEN /\ ws' = {[w |-> WorldOf(y.o), used |-> y.used] : y \in good}
                   /\ l' = l + 1 /\ UNCHANGED <<tid, k>>
              ELSE /\ PrintT(<<"REJECT", Traces[tid].id, l, {Failing(y.o, e) : y \in cands}>>)
                   /\ NextTrace

Done == /\ tid <= Len(Traces) /\ l > Len(Events)
        /\ (k.dev => PrintT(<<"DEV", Traces[tid].id, UNION {x.used : x \in ws}>>))
        /\ PrintT(<<"ACCEPT", Traces[tid].id>>)
        /\ NextTrace

TrNext == Step \/ Done
TrSpec == TrInit /\ [][TrNext]_trVars

\* the property invariants hold in every world the validator keeps
WorldsOK == \A x \in ws : k.dev \/ (WorldTypeOK(k, x.w) /\ TagIffUsedP(k, x.w) /\ ProtectedUntouchedP(k, x.w))
=============================================================================
