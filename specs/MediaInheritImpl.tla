-------------------------- MODULE MediaInheritImpl --------------------------
(***************************************************************************)
(* C16, layer B: what component_media.py *does* (one operator per step of  *)
(* _get_comp_cls_media / _get_comp_cls_attr, with Django's Media.merge =   *)
(* graphlib.TopologicalSorter.static_order transcribed).  The places where *)
(* the code departs from MediaInherit are NAMED DEVIATIONS, switched by    *)
(* the set D:                                                              *)
(*                                                                         *)
(*  "inherit"  Dev_InheritedMediaExtend: the nested Media of a class is    *)
(*             looked up with getattr, so a class WITHOUT own Media uses   *)
(*             the Media (files and `extend`) of the nearest class in its  *)
(*             MRO that has one; with extend False / list there, the other *)
(*             bases of the class are not merged.                          *)
(*  "flatten"  Dev_FlattenedPairwiseMerge: after adding each base the      *)
(*             merged Media is flattened to one list, so the next merge    *)
(*             sees an artificial total order; a spurious conflict makes   *)
(*             Django fall back to concatenation, which can contradict a   *)
(*             declared list although all declared lists are consistent.   *)
(*  "lazy"     Dev_MediaBeforeResolve: computing `media` does not convert  *)
(*             component-relative paths; only an access to template/js/css *)
(*             (or their _file forms) does, for the classes its MRO walk   *)
(*             visits.  The memoised media keeps the js names it saw first *)
(*             (and a live reference to the css dict of a class merged     *)
(*             with no base, which the later conversion rewrites in place).*)
(*                                                                         *)
(* With D = {} this module describes the repaired code and must satisfy    *)
(* MediaInherit (checked by TLC: ImplRefines).  The trace validator uses   *)
(* Impl(D) only to *explain* an observation that MediaInherit rejects: it  *)
(* is a known finding iff some D of listed deviations predicts exactly the *)
(* observed value.  Verdicts never come from this module.                  *)
(***************************************************************************)
EXTENDS MediaInherit

Devs == {"inherit", "flatten", "lazy"}

(* ---- Django's Media.merge ------------------------------------------------ *)
RECURSIVE FlattenSeq(_)
FlattenSeq(ls) == IF ls = <<>> THEN <<>> ELSE Head(ls) \o FlattenSeq(Tail(ls))
RECURSIVE Dedup(_, _)
Dedup(s, seen) == IF s = <<>> THEN <<>>
                  ELSE IF Head(s) \in seen THEN Dedup(Tail(s), seen)
                  ELSE <<Head(s)>> \o Dedup(Tail(s), seen \cup {Head(s)})

\* edges head -> item between consecutive different items of every list, in insertion order
EdgesOf(l) == SelectSeq([i \in 1..(Len(l) - 1) |-> <<l[i], l[i + 1]>>], LAMBDA e : e[1] # e[2])

RECURSIVE Dec(_, _, _, _)           \* done(node): decrement successors, collect the newly ready
Dec(S, i, cnt, rdy) ==
  IF i > Len(S) THEN [cnt |-> cnt, ready |-> rdy]
  ELSE LET c2 == [cnt EXCEPT ![S[i]] = @ - 1] IN
       Dec(S, i + 1, c2, IF c2[S[i]] = 0 THEN Append(rdy, S[i]) ELSE rdy)

RECURSIVE Kahn(_, _, _, _, _)       \* static_order(): whole ready groups, in readiness order
Kahn(ready, cnt, out, edges, fuel) ==
  IF ready = <<>> \/ fuel = 0 THEN out
  ELSE LET S == FlattenSeq([i \in 1..Len(ready) |->
                    LET es == SelectSeq(edges, LAMBDA e : e[1] = ready[i]) IN
                    [j \in 1..Len(es) |-> es[j][2]]])
           d == Dec(S, 1, cnt, <<>>) IN
       Kahn(d.ready, d.cnt, out \o ready, edges, fuel - 1)

DjMerge(lists) ==
  LET ne    == SelectSeq(lists, LAMBDA l : l # <<>>)
      nodes == Dedup(FlattenSeq(ne), {})
      edges == FlattenSeq([i \in 1..Len(ne) |-> EdgesOf(ne[i])])
      cnt   == [n \in Range(nodes) |-> Cardinality({i \in 1..Len(edges) : edges[i][2] = n})]
      out   == Kahn(SelectSeq(nodes, LAMBDA n : cnt[n] = 0), cnt, <<>>, edges, Len(nodes) + 1) IN
  IF Len(out) = Len(nodes) THEN out
  ELSE nodes            \* CycleError: MediaOrderConflictWarning, concatenation without duplicates

(* ---- _get_comp_cls_media ---------------------------------------------------- *)
\* the class whose nested Media `curr_cls` uses (0: none / Media = None)
MediaOwner(K, D, c) ==
  IF ~Real(K, c) THEN 0
  ELSE IF "inherit" \notin D THEN (IF K.cls[c].media = "def" THEN c ELSE 0)
  ELSE LET m == Mro(K, c).seq
           idx == {i \in 1..Len(m) : Real(K, m[i]) /\ K.cls[m[i]].media # "none"} IN
       IF idx = {} THEN 0
       ELSE IF K.cls[m[Min(idx)]].media = "def" THEN m[Min(idx)] ELSE 0

ImplBases(K, D, c) ==
  LET o == MediaOwner(K, D, c) IN
  IF ~Real(K, c) THEN <<>>  \* (Component, Generic, object: empty, nothing to merge)
  ELSE IF o = 0 THEN BasesOf(K, c)        \* curr_cls.__bases__, i.e. (Component,) = <<0>> when none is listed:
  ELSE CASE K.cls[o].ext = "true"  -> BasesOf(K, c)   \* merging the root adds nothing but does flatten
         [] K.cls[o].ext = "false" -> <<>>
         [] K.cls[o].ext = "list"  -> K.cls[o].extl

\* A list held by a memoised Media object is either a snapshot of names (o = 0) or - for css -
\* the very dict object of the owner's nested Media (o = owner), which _resolve_media later
\* rewrites IN PLACE: such a list shows the owner's current state whenever it is read.
\* (Media.js is rebound to a new list by _resolve_media, so js lists are snapshots.)
OwnNames(K, o, t, resolved) ==
  IF o = 0 THEN <<>>
  ELSE [i \in 1..Len(K.cls[o].lists[t]) |->
          IF o \in resolved THEN Res(K, K.cls[o].lists[t][i]) ELSE K.cls[o].lists[t][i]]
Mat(K, resolved, ref, t) == IF ref.o = 0 THEN ref.names ELSE OwnNames(K, ref.o, t, resolved)
Snap(names) == [o |-> 0, names |-> names]
OwnRef(K, D, c, t, resolved) ==
  LET o == MediaOwner(K, D, c) IN
  IF t = "js" \/ o = 0 THEN Snap(OwnNames(K, o, t, resolved)) ELSE [o |-> o, names |-> <<>>]

\* add the lists of a base: Media.__add__ skips empty and already present lists
RECURSIVE AddLists(_, _, _, _, _)
AddLists(K, resolved, t, acc, refs) ==
  IF refs = <<>> THEN acc
  ELSE LET v == Mat(K, resolved, Head(refs), t) IN
       AddLists(K, resolved, t,
                IF v = <<>> \/ v \in {Mat(K, resolved, acc[i], t) : i \in 1..Len(acc)} THEN acc
                ELSE Append(acc, Head(refs)),
                Tail(refs))

MatAll(K, resolved, refs, t) == [i \in 1..Len(refs) |-> Mat(K, resolved, refs[i], t)]

RECURSIVE MergeBases(_, _, _, _, _, _, _)
MergeBases(K, D, memo_, resolved, bs, t, acc) ==
  IF bs = <<>> THEN acc
  ELSE LET a2 == AddLists(K, resolved, t, acc, memo_[Head(bs)][t]) IN
       MergeBases(K, D, memo_, resolved, Tail(bs), t,
                  IF "flatten" \in D THEN <<Snap(DjMerge(MatAll(K, resolved, a2, t)))>> ELSE a2)

\* st = [memo |-> class -> [t -> sequence of list references], resolved |-> set of classes]
RECURSIVE ImplFill(_, _, _, _)
RECURSIVE ImplFillSeq(_, _, _, _)
ImplFillSeq(K, D, st, s) == IF s = <<>> THEN st ELSE ImplFillSeq(K, D, ImplFill(K, D, st, Head(s)), Tail(s))
ImplFill(K, D, st, c) ==
  IF c \in DOMAIN st.memo THEN st
  ELSE LET bs  == ImplBases(K, D, c)
           s1  == ImplFillSeq(K, D, st, bs)
           res == IF "lazy" \in D \/ ~Real(K, c) \/ Plain(K, c) THEN s1.resolved ELSE s1.resolved \cup {c}
           val == [t \in Types |-> MergeBases(K, D, s1.memo, res, bs, t, <<OwnRef(K, D, c, t, res)>>)] IN
       [memo |-> s1.memo @@ (c :> val), resolved |-> res]

ImplInit == [memo |-> <<>>, resolved |-> {}]
\* media._js / media._css[t] as read now
ImplMedia(K, st, c) == [t \in Types |-> DjMerge(MatAll(K, st.resolved, st.memo[c][t], t))]

(* ---- _get_comp_cls_attr: walks the MRO, resolving every class it visits ----- *)
ImplAttrResolved(K, st, c, p) ==
  LET m == Mro(K, c).seq
      idx == {i \in 1..Len(m) : Kind(K, m[i], p) # "none"}
      upto == IF idx = {} THEN Len(m) ELSE Min(idx) IN
  [st EXCEPT !.resolved = @ \cup {x \in {m[i] : i \in 1..upto} : Real(K, x) /\ ~Plain(K, x)}]   \* Components only

ImplStep(K, D, st, c, a) ==
  IF a = "media" THEN ImplFill(K, D, st, c)
  ELSE IF a = "render"          \* reads template, js, css and then the media
  THEN ImplFill(K, D, ImplAttrResolved(K, ImplAttrResolved(K, ImplAttrResolved(K, st, c, "template"), c, "js"), c, "css"), c)
  ELSE ImplAttrResolved(K, st, c, a)

(* ---- shapes of the cases on which a deviation can show (documentation, and     *)
(*      checked by TLC in MC_C16: a deviation changes the result only there) ---- *)
\* some class contributing to c has no own Media while the nearest Media in its MRO restricts `extend`
InheritShape(K, c) ==
  \E k \in 1..N(K) : /\ K.cls[k].media = "none"
                     /\ MediaOwner(K, {"inherit"}, k) # 0
                     /\ K.cls[MediaOwner(K, {"inherit"}, k)].ext # "true"
\* at least two merge steps happen somewhere and some file is declared by two classes
FlattenShape(K, c, t) ==
  /\ \E k \in Contrib(K, c) : Len(Selected(K, k)) >= 1 /\ Cardinality(Contrib(K, k)) >= 3
  /\ \E k1, k2 \in Contrib(K, c) : k1 # k2 /\ Range(Decl(K, k1, t)) \cap Range(Decl(K, k2, t)) # {}
\* a contributing class declares a component-relative file
LazyShape(K, c, t) == \E f \in Files(K, c, t) : f > RelOffset
=============================================================================
