------------------------------- MODULE MC_C15 -------------------------------
(***************************************************************************)
(* Bounded instances of Registry: the configurations are read from the     *)
(* ndjson file IOEnv.CFG (written by vf/c15.py); every transition of the    *)
(* reachable state graph is exported to the file <IOEnv.OUT><configuration  *)
(* id>.ndjson as one JSON line with the                                     *)
(* world before, the call, what the call must return / raise, the world     *)
(* after and the tags of the unspecified zone (spec -> code replay).  A     *)
(* (world, call) pair with several admissible outcomes yields several lines.*)
(* The line is written by the action itself (conjunct Emit) and the history *)
(* variables are hidden behind VIEW mcView, so that TLC generates - and     *)
(* exports - every transition of the graph exactly once (run with one       *)
(* worker): lines written = states generated - initial states.              *)
(***************************************************************************)
EXTENDS Registry, RegistryIO, TLC, Json, IOUtils

MCConfigs == {NormCfg(j) : j \in Rng(ndJsonDeserialize(IOEnv.CFG))}

VARIABLES last,      \* the call just made (hidden by the view)
          dict       \* plain dictionaries driven by the same calls (by their results only)
mcVars == <<cfg, reg, lib, fmt, out, last, dict>>
mcView == <<cfg, reg, lib, fmt>>

NoCall == [op |-> "init", r |-> "-", n |-> "-", c |-> "-"]

MCInit == /\ RegInit /\ last = NoCall
          /\ dict = [r \in cfg.regs |-> NoEntries]

DictStep(d, e, res) ==
  CASE e.op \in {"register", "decorate"} /\ res = "ok" -> [d EXCEPT ![e.r] = Put(d[e.r], e.n, e.c)]
    [] e.op = "unregister" /\ res = "ok"               -> [d EXCEPT ![e.r] = Drop(d[e.r], e.n)]
    [] e.op = "clear"                                  -> [d EXCEPT ![e.r] = NoEntries]
    [] OTHER                                           -> d

W2 == [reg |-> reg', lib |-> lib', fmt |-> fmt', stale |-> {}]
Emit(e) ==
  Serialize(ToJson([cfg |-> cfg.id, call |-> e,
                    res |-> out'.res, cls |-> out'.cls, yes |-> out'.yes, all |-> out'.all,
                    pre |-> WorldJ(W), post |-> WorldJ(W2),
                    maybe |-> UNION {{<<l, t, cfg.pre[l][t]>> : t \in Maybe(cfg, W2, l)} : l \in Libs(cfg)},
                    \* what the named deviations of the current code would do instead (not admitted)
                    dev |-> {[name |-> d.name, res |-> d.o.res, cls |-> d.o.cls,
                              post |-> WorldJ(WorldOf(d.o))] : d \in DevOutcomes(cfg, W, e)}])
              \o "\n",
            IOEnv.OUT \o cfg.id \o ".ndjson", [format |-> "TXT", charset |-> "UTF-8",
                        openOptions |-> <<"WRITE", "CREATE", "APPEND">>]).exitValue = 0

Do(act, e) == /\ e.op \in cfg.ops /\ act
              /\ last' = e /\ dict' = DictStep(dict, e, out'.res)
              /\ Emit(e)

Call(op, r, n, c) == [op |-> op, r |-> r, n |-> n, c |-> c]

MCNext ==
  \E r \in cfg.regs :
    \/ \E n \in cfg.names, c \in cfg.classes :
         \/ Do(Register(r, n, c), Call("register", r, n, c))
         \/ Do(Decorate(r, n, c), Call("decorate", r, n, c))
    \/ \E n \in cfg.names :
         \/ Do(Unregister(r, n), Call("unregister", r, n, "-"))
         \/ Do(Get(r, n), Call("get", r, n, "-"))
         \/ Do(Has(r, n), Call("has", r, n, "-"))
    \/ Do(Clear(r), Call("clear", r, "-", "-"))
    \/ Do(All(r), Call("all", r, "-", "-"))
    \/ Do(AllMutate(r), Call("allmutate", r, "-", "-"))
    \/ \E f \in cfg.fmts[r] : Do(SetFmt(r, f), Call("setfmt", r, f, "-"))

MCSpec == MCInit /\ [][MCNext]_mcVars

(* ---- the statement of C15, checked on the specification itself ---------- *)
\* contents = a plain dictionary driven by the same calls
DictLike == \A r \in cfg.regs : [n \in DOMAIN reg[r] |-> reg[r][n].cls] = dict[r]

\* AlreadyRegistered / NotRegistered exactly on conflicting / missing names; a refused call
\* changes nothing; TagProtected only when the component's tag is a protected one
ErrorsExact ==
  [][LET e == last'  r == last'.r IN
     /\ (out'.res = "AlreadyRegistered") <=>
          (e.op \in {"register", "decorate"} /\ e.n \in DOMAIN dict[r] /\ dict[r][e.n] # e.c)
     /\ (out'.res = "NotRegistered") <=>
          (e.op \in {"unregister", "get"} /\ e.n \notin DOMAIN dict[r])
     /\ (out'.res = "TagProtected") =>
          (e.op \in {"register", "decorate"} /\ TagOf(fmt[r], e.n) \in cfg.prot[cfg.libof[r]])
     /\ (out'.res # "ok") => UNCHANGED <<reg, lib, fmt>>]_mcVars

\* re-registration of the same class (formatter not switched in between) is a no-op
SameClassNoOp ==
  [][LET e == last'  r == last'.r IN
     (e.op \in {"register", "decorate"} /\ e.n \in DOMAIN dict[r] /\ dict[r][e.n] = e.c
        /\ reg[r][e.n].tag = TagOf(fmt[r], e.n))
     => (out'.res = "ok" /\ UNCHANGED <<reg, lib, fmt>>)]_mcVars

QueriesPure ==
  [][last'.op \in {"get", "has", "all", "allmutate"} => UNCHANGED <<reg, lib, fmt>>]_mcVars

\* get returns what was registered last under that name; all() is the whole dictionary
ReadsRight ==
  [][LET e == last'  r == last'.r IN
     /\ (e.op = "get" /\ out'.res = "ok") => out'.cls = dict[r][e.n]
     /\ e.op = "has" => out'.yes = (e.n \in DOMAIN dict[r])
     /\ e.op \in {"all", "allmutate"} => out'.all = {<<n, dict[r][n]>> : n \in DOMAIN dict[r]}
     /\ (e.op = "decorate" /\ out'.res = "ok") => out'.cls = e.c]_mcVars

=============================================================================
