------------------------------ MODULE Trace_C11 ------------------------------
(***************************************************************************)
(* Trace validation (code -> spec) for C11.  IOEnv.IN names an ndjson      *)
(* file; every line is one recorded case: a signature, a call, and what    *)
(* was observed when the call was made                                     *)
(*   py    by CPython itself on the literal call,                          *)
(*   fast  through a real template on a tag whose render is a function     *)
(*         (validate_params fast path),                                    *)
(*   slow  on a tag whose render has no __code__ (fallback path);          *)
(* each observation is [o, slot, star, kw, calls] (o = ok/type/syntax/     *)
(* other; calls = how often the probe body ran).  The machine of           *)
(* ArgBinding replays the call item by item with the same Pass action the  *)
(* model checker uses; at the end the observations must be explained:      *)
(*   py    must equal Outcome (otherwise the *specification* is wrong:     *)
(*         clause spec_vs_cpython, a machinery failure, not a violation);  *)
(*   fast/slow must be in Admissible, or be predicted exactly by a named   *)
(*         deviation (clause dev:<path>:<key>), else <path>_not_admissible;*)
(*   the two paths must agree; the probe must not run when the tag raised. *)
(* One ACCEPT/REJECT line per case.                                        *)
(***************************************************************************)
EXTENDS ArgBindingDev, TLC, Json, IOUtils

Traces == ndJsonDeserialize(IOEnv.IN)

VARIABLES tid, phase
trVars == <<sig, call, b, tid, phase>>

T == Traces[tid]

TrInit == ABInit /\ tid = 1 /\ phase = "begin"

NextTrace == /\ tid' = tid + 1 /\ phase' = "begin"
             /\ sig' = <<>> /\ call' = <<>> /\ b' = B0(<<>>)

InputOK(t) == /\ WellFormed(t.sig)
              /\ \A i \in DOMAIN t.call : WellFormedItem(t.call[i])
              /\ Cardinality({i \in DOMAIN t.call : t.call[i].fv}) <= 1

Begin == /\ tid <= Len(Traces) /\ phase = "begin"
         /\ IF InputOK(T)
            THEN /\ sig' = T.sig /\ call' = <<>> /\ b' = B0(T.sig)
                 /\ phase' = "pass" /\ UNCHANGED tid
            ELSE /\ PrintT(<<"REJECT", T.id, 0, {"malformed_case"}>>)
                 /\ NextTrace

Step == /\ tid <= Len(Traces) /\ phase = "pass" /\ Len(call) < Len(T.call)
        /\ Pass(T.call[Len(call) + 1])
        /\ UNCHANGED <<tid, phase>>

In(adm, obs) == \E a \in adm : SameOutcome(a, obs)

\* the key of the first (smallest) deviation set that predicts exactly this observation
DevKey(devs, obs) ==
  LET hits == SelectSeq(devs, LAMBDA d : SameOutcome(d.out, obs))
  IN  IF Len(hits) > 0 THEN hits[1].key ELSE ""

PathClauses(path, obs, adm, devs) ==
  IF In(adm, obs)
  THEN (IF obs.o # "ok" /\ obs.calls # 0 THEN {path \o "_called_although_rejected"} ELSE {})
  ELSE IF DevKey(devs, obs) # "" THEN {"dev:" \o path \o ":" \o DevKey(devs, obs)}
  ELSE {path \o "_not_admissible"}

Failing ==
  LET adm  == Admissible(sig, call, b)
      devs == Deviations(sig, call, b)
      pf   == PathClauses("fast", T.fast, adm, devs)
      ps   == PathClauses("slow", T.slow, adm, devs)
      explained == \E c \in pf \cup ps : SubSeq(c, 1, 4) = "dev:"
  IN  (IF SameOutcome(T.py, Outcome(sig, b)) THEN {} ELSE {"spec_vs_cpython"})
      \cup pf \cup ps
      \cup (IF SameOutcome(T.fast, T.slow) \/ explained THEN {} ELSE {"paths_disagree"})

End == /\ tid <= Len(Traces) /\ phase = "pass" /\ Len(call) = Len(T.call)
       /\ IF Failing = {}
          THEN PrintT(<<"ACCEPT", T.id>>)
          ELSE PrintT(<<"REJECT", T.id, Len(call), Failing>>)
       /\ NextTrace

TrNext == Begin \/ Step \/ End
TrSpec == TrInit /\ [][TrNext]_trVars

\* the theorems of ArgBinding on the replayed (deeper) cases
TraceTypeOK ==
  phase = "pass" =>
    /\ b.nflat = Len(Flat(call))
    /\ MachineAgreesWithDeclarative
    /\ EveryValueBoundOnce
    /\ KeysNonIdentifierOnlyViaKwargs
    /\ PositionalOnlyNeverByKeyword
=============================================================================
