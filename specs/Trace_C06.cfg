SPECIFICATION TrSpec
CONSTANTS
  MaxNodes = 100000
  MaxDepth = 1000
  Cleanup = TRUE
  AllowFail = TRUE
INVARIANT Quiescent
