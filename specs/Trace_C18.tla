------------------------------ MODULE Trace_C18 ------------------------------
(***************************************************************************)
(* Trace validation (code -> spec) for the LRU cache.  IOEnv.IN names an   *)
(* ndjson file; every line is one recorded history of calls on a real      *)
(* django_components.util.cache.LRUCache with, after every call, the       *)
(* return value and the projected state (forward walk head->tail, backward *)
(* walk tail->head, dict keys, values).  Every event must be explained by   *)
(* the LRUCache action of the same name and the projected state must equal *)
(* the specification's state.  Verdicts are total: one ACCEPT/REJECT line   *)
(* per trace.                                                              *)
(***************************************************************************)
EXTENDS LRUCache, TLC, Json, IOUtils, SequencesExt

Traces == ndJsonDeserialize(IOEnv.IN)

VARIABLES tid, l, phase
trVars == <<order, val, ret, tid, l, phase>>

Events == Traces[tid].events
Ev == Events[l]

TrInit == LRUInit /\ tid = 1 /\ l = 1 /\ phase = "step"

NextTrace == /\ tid' = tid + 1 /\ l' = 1 /\ phase' = "step"
             /\ order' = <<>> /\ val' = <<>> /\ ret' = None

SpecAction(e) ==
  CASE e.op = "get"   -> Get(e.k)
    [] e.op = "has"   -> Has(e.k)
    [] e.op = "set"   -> Set(e.k, e.v)
    [] e.op = "clear" -> Clear

Step == /\ tid <= Len(Traces) /\ phase = "step" /\ l <= Len(Events)
        /\ SpecAction(Ev)
        /\ phase' = "cmp" /\ UNCHANGED <<tid, l>>

Failing(e) ==
  {c \in {"ret", "order_fwd", "order_bwd", "dict_keys", "values", "bounded"} :
     CASE c = "ret"       -> \* e.rt is the Python type of the returned value, e.ret its encoding
                             IF e.op = "has" THEN e.rt # "bool" \/ ret # e.ret
                             ELSE IF ret = None THEN e.rt # "none"
                             ELSE e.rt # "int" \/ ret # e.ret
       [] c = "order_fwd" -> order # e.fwd
       [] c = "order_bwd" -> order # Reverse(e.bwd)
       [] c = "dict_keys" -> DOMAIN val # Range(e.dkeys)
       [] c = "values"    -> Len(e.vals) # Len(order) \/
                             \E i \in 1..Len(order) : i <= Len(e.vals) /\ val[order[i]] # e.vals[i]
       [] c = "bounded"   -> ~Bounded}

Cmp == /\ tid <= Len(Traces) /\ phase = "cmp"
       /\ IF Failing(Ev) = {}
          THEN /\ l' = l + 1 /\ phase' = "step" /\ UNCHANGED <<order, val, ret, tid>>
          ELSE /\ PrintT(<<"REJECT", Traces[tid].id, l, Failing(Ev)>>)
               /\ NextTrace

Done == /\ tid <= Len(Traces) /\ phase = "step" /\ l > Len(Events)
        /\ PrintT(<<"ACCEPT", Traces[tid].id>>)
        /\ NextTrace

TrNext == Step \/ Cmp \/ Done
TrSpec == TrInit /\ [][TrNext]_trVars
=============================================================================
