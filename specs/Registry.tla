------------------------------ MODULE Registry ------------------------------
(***************************************************************************)
(* The component registries of one process as a state machine (C15).       *)
(* `cfg` is the configuration (chosen at Init, never changes), `reg` the    *)
(* name -> (class, tag) dictionaries, `lib` the tag tables of the Django    *)
(* Libraries, `fmt` the tag formatter each registry currently uses, `out`   *)
(* what the last call returned / raised (observation only).  The meaning    *)
(* of every call is in RegistryOps.                                         *)
(***************************************************************************)
EXTENDS RegistryOps

CONSTANT Configs            \* the configurations to explore

VARIABLES cfg, reg, lib, fmt, out
regVars == <<cfg, reg, lib, fmt, out>>

W == [reg |-> reg, lib |-> lib, fmt |-> fmt, stale |-> {}]
NoOut == [res |-> "init", cls |-> "-", yes |-> FALSE, all |-> {}]

RegInit == /\ cfg \in Configs
           /\ reg = InitWorld(cfg).reg /\ lib = InitWorld(cfg).lib /\ fmt = InitWorld(cfg).fmt
           /\ out = NoOut

Becomes(o) == /\ reg' = o.reg /\ lib' = o.lib /\ fmt' = o.fmt
              /\ out' = [res |-> o.res, cls |-> o.cls, yes |-> o.yes, all |-> o.all]
              /\ UNCHANGED cfg

Register(r, n, c) == \E o \in RegisterO(cfg, W, r, n, c) : Becomes(o)
Decorate(r, n, c) == \E o \in DecorateO(cfg, W, r, n, c) : Becomes(o)
Unregister(r, n)  == \E o \in UnregisterO(cfg, W, r, n) : Becomes(o)
Clear(r)          == \E o \in ClearO(cfg, W, r) : Becomes(o)
Get(r, n)         == \E o \in GetO(cfg, W, r, n) : Becomes(o)
Has(r, n)         == \E o \in HasO(cfg, W, r, n) : Becomes(o)
All(r)            == \E o \in AllO(cfg, W, r) : Becomes(o)
AllMutate(r)      == \E o \in AllMutateO(cfg, W, r) : Becomes(o)
SetFmt(r, f)      == f # fmt[r] /\ \E o \in SetFmtO(cfg, W, r, f) : Becomes(o)

RegNext == \E r \in cfg.regs :
             \/ \E n \in cfg.names, c \in cfg.classes : Register(r, n, c) \/ Decorate(r, n, c)
             \/ \E n \in cfg.names : Unregister(r, n) \/ Get(r, n) \/ Has(r, n)
             \/ Clear(r) \/ All(r) \/ AllMutate(r)
             \/ \E f \in cfg.fmts[r] : SetFmt(r, f)

RegSpec == RegInit /\ [][RegNext]_regVars

(* ---- invariants --------------------------------------------------------- *)
TypeOK == WorldTypeOK(cfg, W)
TagIffUsed == TagIffUsedP(cfg, W)
ProtectedUntouched == ProtectedUntouchedP(cfg, W)
\* registries are independent dictionaries: a call on one never changes another
Independent == [][\A r \in cfg.regs : reg'[r] # reg[r] =>
                    \A q \in cfg.regs \ {r} : reg'[q] = reg[q]]_regVars
=============================================================================
