------------------------------- MODULE MC_C08 -------------------------------
(***************************************************************************)
(* Bounded instance for C08.  One state = one document: every sequence of  *)
(* at most MaxLen segments over the 9-symbol alphabet (the Txt classes are  *)
(* symmetric for the specification, so one abstract Txt symbol; the harness *)
(* concretises it in many ways).  On every document TLC                     *)
(*   - checks the theorems of DepsInsert,                                   *)
(*   - checks layer B against layer A on a unit-symbol concretisation in    *)
(*     which every unit carries its origin, so any displaced unit shows:    *)
(*     the repaired code refines A everywhere, the current code refines A   *)
(*     exactly outside the shapes of the named deviations,                  *)
(*   - exports the document with the admissible results (spec -> code),     *)
(*   - exports (once) the alphabet of carried texts: every payload of at    *)
(*     most MaxPay units with what the inserted block must contain for it.  *)
(***************************************************************************)
EXTENDS DepsInsertImpl, TLC, Json, IOUtils

CONSTANTS MaxLen,        \* longest document
          MaxPay,        \* longest carried text (payload), in units
          PhVariants     \* {"one"} for the export (the variants are symmetric for layer A),
                         \* {"one", "multi"} for the comparison with layer B
VARIABLE doc

Alphabet == {Txt("a"), HeadEnd("lc"), HeadEnd("uc"), BodyEnd("lc"), BodyEnd("uc"), Marker("A"), Marker("B")}
              \cup {CssPh(v) : v \in PhVariants} \cup {JsPh(v) : v \in PhVariants}

MCInit == doc = <<>>
MCNext == \E s \in Alphabet : Len(doc) < MaxLen /\ doc' = Append(doc, s)
MCSpec == MCInit /\ [][MCNext]_doc

(* ---- layer A theorems --------------------------------------------------- *)
Thm_OnlyDocumentedEdits    == OnlyDocumentedEdits(doc)
Thm_InsertionsDocumented   == InsertionsDocumented(doc)
Thm_PlaceholderEquivalence == PlaceholderEquivalence(doc)
Thm_ZoneIsNarrow           == ZoneIsNarrow(doc)
ASSUME Thm_TypePreserved == TypePreserved
Thm_PassThrough            == PassThrough(doc)

Thm_PayloadSitesDocumented == PayloadSitesDocumented(doc)
ASSUME Thm_CarriedVerbatim == CarriedVerbatim(MaxPay)

(* ---- layer B vs layer A on unit texts ----------------------------------- *)
\* unit <<i, k>> = k-th unit of segment i; end tags are two units long so that an
\* insertion *inside* a tag is visible.  Blocks (worst-case content): component A has
\* css whose text contains a `</body>` (unit 2 of 3) and js; component B has js whose
\* text contains a `</head>` (unit 2 of 3).
UTxt == [i \in DOMAIN doc |-> IF doc[i].t \in {"head", "body"} THEN <<<<i, 1>>, <<i, 2>>>> ELSE <<<<i, 1>>>>]
HasMarker(c) == \E i \in DOMAIN doc : doc[i] = Marker(c)
UBlk == [css  |-> IF HasMarker("A") THEN <<<<100, 1>>, <<100, 2>>, <<100, 3>>>> ELSE <<>>,
         cssb |-> IF HasMarker("A") THEN {1} ELSE {},
         js   |-> IF HasMarker("B") THEN <<<<200, 1>>, <<200, 2>>, <<200, 3>>>>
                  ELSE IF HasMarker("A") THEN <<<<200, 1>>, <<200, 2>>>> ELSE <<<<200, 1>>>>,
         jsh  |-> IF HasMarker("B") THEN {1} ELSE {},
         frag |-> IF HasMarker("A") \/ HasMarker("B") THEN <<<<300, 1>>>> ELSE <<>>]

UImpl(mode, fixes) == ImplOut(doc, UTxt, UBlk, <<>>, mode, fixes)
UFlat(mode)        == Flat(doc, Expected(doc, mode, FALSE), UTxt, UBlk, <<>>)
Repairable == {"offset", "multiattr", "blocktag"}      \* "nonutf8" has no unit-text counterpart

Shape(d, mode, fixes) ==
  CASE d = "offset"    -> DevOffsetShape(doc, mode, UBlk, <<>>, fixes)
    [] d = "multiattr" -> DevMultiShape(doc)
    [] d = "blocktag"  -> DevBlockTagShape(doc, mode, UBlk, <<>>, fixes)

\* with all repairs the code's arithmetic refines the specification on every document
FixedRefines == \A mode \in Modes : UImpl(mode, Repairable) = UFlat(mode)
\* for every subset of repairs, the code refines the specification exactly outside the
\* shapes of the deviations that are left (current tree: fixes = {})
RefinesExactlyOutsideDeviations ==
  \A fixes \in SUBSET Repairable, mode \in Modes :
     (UImpl(mode, fixes) = UFlat(mode)) <=> (\A d \in Repairable \ fixes : ~Shape(d, mode, fixes))
\* not an invariant: lets TLC print the smallest counterexample of the current arithmetic
CurrentRefines == \A mode \in Modes : UImpl(mode, {}) = UFlat(mode)

\* on unit texts: wherever the specification inserts a block, the block is a contiguous sub-text of
\* the result (so what the block carries, the result carries), under both readings of the zone
Thm_BlocksContiguous ==
  \A ci \in BOOLEAN :
    LET o == Expected(doc, "document", ci)
        flat == Flat(doc, o, UTxt, UBlk, <<>>) IN
    \A k \in {"css", "js"} : (\E j \in DOMAIN o : o[j].k = k) => Occurs(UBlk[k], flat)

(* ---- export -------------------------------------------------------------- *)
Code(s) == CASE s.t = "txt" -> "T" [] s.t = "head" -> (IF s.v = "lc" THEN "Hl" ELSE "Hu")
             [] s.t = "body" -> (IF s.v = "lc" THEN "Bl" ELSE "Bu")
             [] s.t = "cssph" -> "C" [] s.t = "jsph" -> "J" [] s.t = "marker" -> "M" \o s.v
Enc(out) == [j \in DOMAIN out |->
               CASE out[j].k = "seg" -> out[j].i [] out[j].k = "css" -> 0 - 1
                 [] out[j].k = "js" -> 0 - 2 [] out[j].k = "frag" -> 0 - 3]
\* the payload alphabet: every carried text of at most MaxPay units with what the block must contain
\* for it (written once, on the empty document)
PayRows == {[units |-> p, carried |-> Carried(p)] : p \in PayloadsUpTo(MaxPay)}
ExportPayloads ==
  Len(doc) = 0 =>
    Serialize(ToJson([payloads |-> PayRows]) \o "\n",
              IOEnv.PAY, [format |-> "TXT", charset |-> "UTF-8",
                          openOptions |-> <<"WRITE", "CREATE", "TRUNCATE_EXISTING">>]).exitValue = 0
Export ==
  Serialize(ToJson([doc |-> [i \in DOMAIN doc |-> Code(doc[i])],
                    document |-> <<Enc(Expected(doc, "document", FALSE)), Enc(Expected(doc, "document", TRUE))>>,
                    fragment |-> <<Enc(Expected(doc, "fragment", FALSE)), Enc(Expected(doc, "fragment", TRUE))>>,
                    pass |-> Enc(Identity(doc))]) \o "\n",
            IOEnv.OUT, [format |-> "TXT", charset |-> "UTF-8",
                        openOptions |-> <<"WRITE", "CREATE", "APPEND">>]).exitValue = 0
=============================================================================
