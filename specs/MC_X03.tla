------------------------------- MODULE MC_X03 -------------------------------
(***************************************************************************)
(* Bounded instances of Settings (spec -> code replay).                    *)
(*                                                                         *)
(* MCSpec: the complete state graph of the settings state machine over one *)
(*   key group GKeys (every value of ValsOf, every form), with the reads   *)
(*   ReadAccs / registry reads RegReads (cfg: VIEW View).  Every           *)
(*   transition is exported as one JSON line: the call, the settings       *)
(*   before and after, the set of admissible results of a read, and - for  *)
(*   every accessor of ReadAccs - what a read right after the call may     *)
(*   return (`after`).                                                     *)
(* SSpec: every configuration over GKeys (built by Set, both forms),       *)
(*   exported with the downstream effects a start-up under it must show.   *)
(***************************************************************************)
EXTENDS Settings, TLC, Json, IOUtils

CONSTANTS GKeys,      \* the keys that vary in this instance
          ReadAccs,   \* accessors read in every state
          RegReads,   \* subset of RegKeys read through a registry
          Base0, Bases,   \* BASE_DIR values (Base0 initially)
          Rich,       \* TRUE: the larger value domains (thorough tier)
          CompReads,  \* TRUE: get_component_dirs() is read in every state
          FS, Apps    \* the world of get_component_dirs: existing directories, app roots

Bools == {B(TRUE), B(FALSE)}
ValsOf(k) ==
  CASE k \in {"autodiscover", "multiline_tags", "reload_on_file_change", "reload_on_template_change",
              "debug_highlight_components", "debug_highlight_slots"} -> Bools
    [] k = "context_behavior" -> {S("django"), S("isolated"), S("bogus")}
                                 \cup (IF Rich THEN {S("Isolated"), S("")} ELSE {})
    [] k = "template_cache_size" -> {I(0), I(2), I(150), NoneV} \cup (IF Rich THEN {I(1), I(128)} ELSE {})
    [] k = "dynamic_component_name" -> {S("dynamic"), S("vfx_dyn")} \cup (IF Rich THEN {S("Dyn2")} ELSE {})
    [] k = "cache" -> {NoneV, S("vfx-alt")}
    \* "/S" = the harness's sandbox: /S/d1, /S/d2 exist, /S/missing does not, /S/file.txt is a file
    [] k = "dirs" -> {L(<<>>), L(<<"/S/d1">>), L(<<"path:/S/d1", "/S/missing">>),
                      L(<<"tuple:pre:/S/d2", "/S/file.txt">>), L(<<"/S/d1", "path:/S/d2">>), L(<<"rel/d">>)}
                     \cup (IF Rich THEN {L(<<"path:/S/missing">>), L(<<"/S/d2", "tuple:p:rel">>)} ELSE {})
    [] k = "app_dirs" -> {L(<<>>), L(<<"ui">>), L(<<"components", "nope">>)}
    [] k = "libraries" -> {L(<<>>), L(<<"vfx.lib1", "vfx.lib2">>)}
    [] k = "static_files_allowed" -> {L(<<>>), L(<<".js", "re:min">>)}
    [] k = "static_files_forbidden" -> {L(<<>>), L(<<".x">>), L(<<".py", "re:any">>)}
    [] k = "forbidden_static_files" -> {L(<<>>), L(<<".old">>)}
    [] k = "tag_formatter" -> {S("django_components.component_formatter"),
                               S("django_components.component_shorthand_formatter")}
RegOwnVals(k) ==
  {Absent} \cup (IF k = "context_behavior" THEN {S("django"), S("isolated")}
                 ELSE {S("django_components.component_formatter"),
                       S("django_components.component_shorthand_formatter")})

VARIABLE last          \* the call just made (history, excluded from the VIEW together with ret)
mcVars == <<user, form, base, ret, last>>
View == <<user, form, base>>

Call(op, k, v, w, s) == [op |-> op, k |-> k, v |-> v, w |-> w, s |-> s]
NoCall == Call("init", "", Absent, Absent, "")

(* ---- export: one JSON line per transition, written while TLC generates it -- *)
GivenSet(u) == {[k |-> k, v |-> u[k]] : k \in {x \in Keys : Given(u, x)}}
Conf(u, f, b) == [form |-> f, base |-> b, given |-> GivenSet(u)]
After(u, f, b) == {[a |-> a, adm |-> Adm(u, f, b, a)] : a \in ReadAccs}
\* classification only (never the expected value): accessors for which the named deviation
\* (Settings!DevAdm) predicts an answer outside Adm
DevAfter(u, f, b) == {[a |-> a, adm |-> DevAdm(u, f, b, a), key |-> DevKey(u, f, a)] :
                        a \in {x \in ReadAccs : DevKey(u, f, x) # ""}}
Out(x) == Serialize(ToJson(x) \o "\n", IOEnv.OUT,
                    [format |-> "TXT", charset |-> "UTF-8",
                     openOptions |-> <<"WRITE", "CREATE", "APPEND">>]).exitValue = 0

MCInit == SInit /\ base = Base0 /\ last = NoCall

\* With VIEW View every settings state is expanded exactly once, so every transition of the
\* settings graph is generated - and exported - exactly once.
Step(act, c) ==
  LET mut == c.op \notin {"read", "regread", "compdirs"} IN
  /\ act /\ last' = c
  /\ Out([call |-> c, pre |-> Conf(user, form, base), post |-> Conf(user', form', base'),
          ret |-> ret',
          \* after a change: what a read of every accessor may return next
          after |-> IF mut THEN After(user', form', base') ELSE {},
          \* ... and what a registry without own settings, created before the call, answers
          afterreg |-> IF mut THEN {[k |-> k, adm |-> RegAdm(user', form', base', k, Absent, Absent)] :
                                      k \in RegReads} ELSE {},
          dev |-> IF mut THEN DevAfter(user', form', base') ELSE {},
          \* after a change: what get_component_dirs() may answer next
          afterdirs |-> IF mut /\ CompReads
                        THEN {[inc |-> inc, adm |-> ComponentDirs(user', form', base', FS, Apps, inc),
                               devadm |-> DevComponentDirs(user', form', base', FS, Apps, inc)] : inc \in BOOLEAN}
                        ELSE {},
          devkey |-> CASE c.op = "read" -> DevKey(user, form, c.k)
                       [] c.op = "compdirs" -> DevDirsKey(user, form, base, FS)
                       [] OTHER -> IF mut /\ CompReads THEN DevDirsKey(user', form', base', FS) ELSE "",
          devret |-> CASE c.op = "read" -> DevAdm(user, form, base, c.k)
                       [] c.op = "compdirs" -> DevComponentDirs(user, form, base, FS, Apps, c.v.b)
                       [] OTHER -> {}])

MCNext ==
  \/ \E k \in GKeys : \E v \in ValsOf(k) : v # user[k] /\ Step(Set(k, v), Call("set", k, v, Absent, ""))
  \/ \E k \in GKeys : Step(Unset(k), Call("unset", k, Absent, Absent, ""))
  \/ \E f \in Forms : Step(Reform(f), Call("reform", "", Absent, Absent, f))
  \/ (user # Empty /\ Step(Drop, Call("drop", "", Absent, Absent, "")))
  \/ \E b \in Bases : Step(SetBase(b), Call("setbase", "", Absent, Absent, b))
  \/ \E k \in ReadAccs : Step(Read(k), Call("read", k, Absent, Absent, ""))
  \/ \E k \in RegReads : \E own \in RegOwnVals(k), old \in RegOwnVals(k) :
        Step(RegRead(k, own, old), Call("regread", k, own, old, ""))
  \/ (CompReads /\ \E inc \in BOOLEAN : Step(CompDirs(FS, Apps, inc), Call("compdirs", "", B(inc), Absent, "")))
MCSpec == MCInit /\ [][MCNext]_mcVars

(* ---- invariants (every settings state) ------------------------------------ *)
TypeOK == /\ WellFormed(user, form) /\ form \in Forms /\ base \in Bases
          /\ \A k \in Keys \ GKeys : ~Given(user, k)
          /\ \A k \in GKeys : Given(user, k) => user[k] \in ValsOf(k)
Theorems == /\ (CompReads => DirsTheorems(FS, Apps))
            /\ DefaultsWhenEmpty /\ FormIndependent /\ DeterminedUnlessAmbiguous /\ GivenWins
            /\ EmptyIsAValue /\ ContextBehaviorClosed /\ AliasEquivalent

(* ---- action properties (every transition) ---------------------------------- *)
\* Read = Resolve(current user settings), and reading changes nothing
ReadIsResolve == [][/\ last'.op = "read" => ret' = Adm(user, form, base, last'.k) /\ ret' # {}
                    /\ last'.op = "regread" =>
                         ret' = RegAdm(user, form, base, last'.k, last'.v, last'.w) /\ ret' # {}
                    /\ last'.op = "compdirs" =>
                         ret' = ComponentDirs(user, form, base, FS, Apps, last'.v.b) /\ ret' # {}
                    /\ last'.op \in {"read", "regread", "compdirs"} =>
                         user' = user /\ form' = form /\ base' = base]_mcVars
LocalityProp == [][last'.op \in {"set", "unset"} => Locality(last'.k)]_mcVars
\* the value just given is what the next read may return (valid values; None and context_behavior are normalised)
SetThenRead == [][(last'.op = "set" /\ last'.v.t # "none" /\ last'.k # "context_behavior")
                    => last'.v \in Adm(user', form', base', NewNameOf(last'.k))]_mcVars
\* taking a key away while its twin is not given restores the documented default
UnsetRestores == [][(last'.op = "unset" /\ UserValues(user', NewNameOf(last'.k)) = {})
                      => Adm(user', form', base', NewNameOf(last'.k)) = {Default(NewNameOf(last'.k), base')}]_mcVars
\* giving the same settings in the other form changes no answer (up to D7)
ReformNeutral == [][(last'.op = "reform" /\ user["template_cache_size"].t # "none")
                      => \A a \in Accessors : Adm(user', form', base', a) = Adm(user, form, base, a)]_mcVars

(* ---- start-up configurations ---------------------------------------------- *)
SNext == /\ \/ \E k \in GKeys : \E v \in ValsOf(k) : ~Given(user, k) /\ Set(k, v)
            \/ \E f \in {"dict", "inst"} : Reform(f)
         /\ UNCHANGED last
SSpec == MCInit /\ [][SNext]_mcVars

CompileCounts == {1, 3, 140, 160}
ProbeDirs == {"components", "ui"}          \* [app1]/<d> holds an importable python file
WatchTarget == "/S/app1/components"        \* a file below it is reported as changed
MayFail == \/ \E k \in Accessors : \E x \in Adm(user, form, base, k) : x.t = "error"
           \/ DirsMayFail(user, form, base)
ExportStartup ==
  Out([conf |-> Conf(user, form, base),
       dyn |-> DynamicNames(user, form, base),
       multiline |-> Multiline(user, form, base),
       cached |-> {[n |-> n, c |-> CachedAfter(user, form, base, n)] : n \in CompileCounts},
       fresh |-> FreshRegistryBehavior(user, form, base),
       watch |-> ReloadsOnChangeIn(user, form, base, FS, Apps, WatchTarget),
       watchdevkey |-> DevReloadKey(user, form, base, FS, Apps, WatchTarget),
       autod |-> AutodiscoverImports(user, form, base, ProbeDirs),
       libs |-> LibrariesLoaded(user, form, base),
       mayfail |-> MayFail,
       devkey |-> DevKey(user, form, "template_cache_size"),
       devcached |-> {[n |-> n, c |-> {CachedAfterOne(n, bd) :
                                         bd \in DevAdm(user, form, base, "template_cache_size")}] :
                       n \in CompileCounts}])
StartupTheorems ==
  /\ \A n \in CompileCounts : \A c \in CachedAfter(user, form, base, n) : c >= 0 /\ c <= n
  /\ ~Given(user, "dynamic_component_name") => DynamicNames(user, form, base) = {S("dynamic")}
  /\ ~Given(user, "multiline_tags") => Multiline(user, form, base) = {B(TRUE)}
  /\ ~Given(user, "template_cache_size") => CachedAfter(user, form, base, 140) = {128}
=============================================================================
