------------------------------- MODULE MC_X02 -------------------------------
(* Bounded instances of TypedInputs.  Every initial state is one case; the  *)
(* invariant Export writes it as one JSON line with what the contract       *)
(* admits (ok / may / must) and what the named deviations predict (devs).   *)
(* Families (constant Family):                                              *)
(*   m11   every (member type of depth <= 1, value of depth <= 1) pair, in  *)
(*         each of the three positions: Args = Tuple[t] with args = (v,),   *)
(*         Kwargs = {k1: t} with kwargs = {k1: v}, Data = {d1: t} with      *)
(*         get_context_data returning {d1: v}                               *)
(*   m21   (new types of depth 2) x (values of depth <= 1), one position    *)
(*   m12   (types of depth <= 1) x (new values of depth 2), one position    *)
(*   args  every Args declaration of <= 2 members x every call of <= 3 args *)
(*   kwargs / data / slots   every TypedDict over two names (absent /       *)
(*         required / NotRequired x member pool) x every dict over those    *)
(*         names and one undeclared name                                    *)
(*   cross all four sections declared at once, small pools                  *)
(*   laws  algebraic laws of MemberOf / OuterFits (no export)               *)
(* Parts / Part split a family over several TLC processes (by declaration). *)
(* Cases on which two named deviations would interact are not exported      *)
(* (Separable, TypedInputsDev) - their number is reported by the harness.   *)
EXTENDS TypedInputsDev, Json, IOUtils

CONSTANTS Family, Parts, Part, Rich

VARIABLE c

(* ---------------------------------------------------------------- pools *)
Seqs2(P) == {<<>>} \cup {<<x>> : x \in P} \cup {<<x, y>> : x, y \in P}
Seqs3(P) == Seqs2(P) \cup {<<x, y, z>> : x, y, z \in P}

Leaves == {TAny, TInt, TStr, TBool, TNone}
OptOK(t) == /\ t.k \notin {"opt", "none"}
            /\ t.k = "union" => \A i \in DOMAIN t.a : t.a[i] # TNone
Plain(t) == t.k \notin {"union", "opt"}

Containers(P, Q) == {TList(t) : t \in P} \cup {TDict(k, t) : k \in {TStr, TInt}, t \in P}
                    \cup {TTuple(<<t>>) : t \in P} \cup {TTuple(<<t, u>>) : t, u \in Q}
Types1 == Leaves \cup Containers(Leaves, {TInt, TStr, TAny})
          \cup {TOpt(t) : t \in {x \in Leaves : OptOK(x)}}
          \cup ({TUnion(<<a, b>>) : a, b \in Leaves} \ {TUnion(<<a, a>>) : a \in Leaves})
NonLeaf1 == Types1 \ Leaves
\* alternatives of depth-2 unions
UPool == IF Rich THEN Leaves \cup Containers({TInt, TStr, TAny}, {TInt, TStr})
         ELSE Leaves \cup {TList(TInt), TDict(TStr, TInt), TTuple(<<TInt, TStr>>)}
Types2New ==
  ({TList(t) : t \in NonLeaf1} \cup {TOpt(t) : t \in {x \in NonLeaf1 : OptOK(x)}}
   \cup (IF Rich THEN {TDict(TStr, t) : t \in NonLeaf1} \cup {TTuple(<<t>>) : t \in NonLeaf1}
                      \cup {TTuple(<<TInt, t>>) : t \in NonLeaf1}
         ELSE {})
   \cup {TUnion(<<a, b>>) : a, b \in {x \in UPool : Plain(x)}}) \ ({TUnion(<<a, a>>) : a \in UPool} \cup Types1)

VLeaves == {VInt(1), VStr(1), VNone, VBool(1), VFloat(1)}
DictBodies(P) == {<<>>} \cup {<<VPair(k, v)>> : k \in {VStr(1), VInt(1)}, v \in P}
                 \cup {<<VPair(VStr(1), v), VPair(VInt(1), w)>> : v, w \in P}
Cont(P) == {VList(s) : s \in Seqs2(P)} \cup {VTuple(s) : s \in Seqs2(P)} \cup {VDict(b) : b \in DictBodies(P)}
Values1 == VLeaves \cup Cont(VLeaves)
Inner2 == IF Rich THEN Cont(VLeaves) ELSE Cont({VInt(1), VStr(1)})
Values2New == UNION {{VList(<<v>>), VTuple(<<v>>), VDict(<<VPair(VStr(1), v)>>),
                      VList(<<VInt(1), v>>), VTuple(<<VInt(1), v>>)} : v \in Inner2}

(* ---------------------------------------------------------------- codes (for Parts and positions) *)
KindSeq == <<"any", "int", "str", "bool", "none", "opt", "union", "list", "dict", "tuple", "slotfunc",
             "slotcontent", "float", "safestr", "pair", "func", "slot">>
KindCode(k) == CHOOSE i \in DOMAIN KindSeq : KindSeq[i] = k
RECURSIVE TCode(_)
TCode(t) == LET RECURSIVE S(_)
                S(i) == IF i > Len(t.a) THEN 0 ELSE i * TCode(t.a[i]) + S(i + 1)
            IN  (KindCode(t.k) + 31 * S(1)) % 9973
RECURSIVE VCode(_)
VCode(v) == LET RECURSIVE S(_)
                S(i) == IF i > Len(v.e) THEN 0 ELSE i * VCode(v.e[i]) + S(i + 1)
            IN  (KindCode(v.k) + 7 * v.n + 31 * S(1)) % 9973
RECURSIVE SeqCode(_, _)
SeqCode(s, i) == IF i > Len(s) THEN 0 ELSE (i * TCode(s[i]) + SeqCode(s, i + 1)) % 9973
FieldsCode(fs) == SeqCode([i \in DOMAIN fs |-> fs[i].t], 1) + Len(fs)
                  + Cardinality({i \in DOMAIN fs : fs[i].req})
Mine(n) == n % Parts = Part

(* ---------------------------------------------------------------- cases *)
AnyArgs == [any |-> TRUE, m |-> <<>>]
AnyDict == [any |-> TRUE, f |-> <<>>]
ArgsDecl(m) == [any |-> FALSE, m |-> m]
DictDecl(f) == [any |-> FALSE, f |-> f]
Field(n, r, t) == [name |-> n, req |-> r, t |-> t]
Entry(k, v) == [key |-> k, v |-> v]
Case(da, dk, ds, dd, ca, ck, cs, cd) ==
  [decl |-> [args |-> da, kwargs |-> dk, slots |-> ds, data |-> dd],
   call |-> [args |-> ca, kwargs |-> ck, slots |-> cs, data |-> cd]]

Positions == <<"args", "kwargs", "data">>
MemberCase(pos, t, v) ==
  CASE pos = "args"   -> Case(ArgsDecl(<<t>>), AnyDict, AnyDict, AnyDict, <<v>>, <<>>, <<>>, <<>>)
    [] pos = "kwargs" -> Case(AnyArgs, DictDecl(<<Field("k1", TRUE, t)>>), AnyDict, AnyDict,
                              <<>>, <<Entry("k1", v)>>, <<>>, <<>>)
    [] pos = "data"   -> Case(AnyArgs, AnyDict, AnyDict, DictDecl(<<Field("d1", TRUE, t)>>),
                              <<>>, <<>>, <<>>, <<Entry("d1", v)>>)
PosBy(t, v) == Positions[((TCode(t) + VCode(v)) % 3) + 1]

\* ---- args family
ArgTypes == {TInt, TStr, TAny, TOpt(TInt), TList(TStr), TUnion(<<TInt, TList(TInt)>>)}
            \cup (IF Rich THEN {TBool, TUnion(<<TStr, TNone>>), TTuple(<<TInt, TStr>>)} ELSE {})
ArgVals  == {VInt(1), VStr(1), VNone, VList(<<VStr(1)>>)} \cup (IF Rich THEN {VBool(1), VFloat(1)} ELSE {})
ArgDecls == {AnyArgs} \cup {ArgsDecl(m) : m \in Seqs2(ArgTypes)}
            \cup {ArgsDecl(<<TInt, TStr, x>>) : x \in {TInt, TAny}}

\* ---- dictionary families: two declared names and one undeclared
DictNames(sec) == CASE sec = "kwargs" -> <<"k1", "k2", "kx">>
                    [] sec = "slots"  -> <<"s1", "s2", "sx">>
                    [] sec = "data"   -> <<"d1", "d2", "dx">>
DictTypes(sec) == IF sec = "slots" THEN {TSlotFunc, TSlotContent, TStr, TAny}
                  ELSE {TInt, TStr, TAny, TOpt(TInt), TList(TStr)}
                       \cup (IF Rich THEN {TUnion(<<TInt, TStr>>), TDict(TStr, TInt)} ELSE {})
DictVals(sec)  == IF sec = "slots" THEN {VStr(1), VSafe(1), VFunc, VSlot, VInt(1)}
                  ELSE {VInt(1), VStr(1), VNone, VList(<<VInt(1)>>)} \cup (IF Rich THEN {VBool(1)} ELSE {})
FieldChoices(sec, n) == {<<>>} \cup {<<Field(n, r, t)>> : r \in BOOLEAN, t \in DictTypes(sec)}
DictDecls(sec) == {AnyDict} \cup {DictDecl(f1 \o f2) : f1 \in FieldChoices(sec, DictNames(sec)[1]),
                                                       f2 \in FieldChoices(sec, DictNames(sec)[2])}
                  \* declaration order reversed (which error is reported first must not matter)
                  \cup {DictDecl(<<Field(DictNames(sec)[2], TRUE, TInt), Field(DictNames(sec)[1], r, TStr)>>) :
                          r \in BOOLEAN}
EntryChoices(sec, n) == {<<>>} \cup {<<Entry(n, v)>> : v \in DictVals(sec)}
DictCalls(sec) == {e1 \o e2 \o e3 : e1 \in EntryChoices(sec, DictNames(sec)[1]),
                                    e2 \in EntryChoices(sec, DictNames(sec)[2]),
                                    e3 \in EntryChoices(sec, DictNames(sec)[3])}
DictCase(sec, d, es) ==
  CASE sec = "kwargs" -> Case(AnyArgs, d, AnyDict, AnyDict, <<>>, es, <<>>, <<>>)
    [] sec = "slots"  -> Case(AnyArgs, AnyDict, d, AnyDict, <<>>, <<>>, es, <<>>)
    [] sec = "data"   -> Case(AnyArgs, AnyDict, AnyDict, d, <<>>, <<>>, <<>>, es)

\* ---- cross family
XArgsD == {AnyArgs, ArgsDecl(<<>>), ArgsDecl(<<TInt>>)}
XArgsC == {<<>>, <<VInt(1)>>, <<VStr(1)>>}
XDictD(n, t) == {AnyDict, DictDecl(<<>>), DictDecl(<<Field(n, TRUE, t)>>)}
XDictC(n, good, bad) == {<<>>, <<Entry(n, good)>>, <<Entry(n, bad)>>}

(* ---------------------------------------------------------------- Init *)
Init ==
  \/ /\ Family = "m11"
     /\ \E t \in {x \in Types1 : Mine(TCode(x))}, v \in Values1, i \in DOMAIN Positions :
          c = MemberCase(Positions[i], t, v)
  \/ /\ Family = "m21"
     /\ \E t \in {x \in Types2New : Mine(TCode(x))}, v \in Values1 : c = MemberCase(PosBy(t, v), t, v)
  \/ /\ Family = "m12"
     /\ \E t \in {x \in Types1 : Mine(TCode(x))}, v \in Values2New : c = MemberCase(PosBy(t, v), t, v)
  \/ /\ Family = "args"
     /\ \E d \in {x \in ArgDecls : Mine(SeqCode(x.m, 1))}, a \in Seqs3(ArgVals) :
          c = Case(d, AnyDict, AnyDict, AnyDict, a, <<>>, <<>>, <<>>)
  \/ /\ Family \in {"kwargs", "slots", "data"}
     /\ \E d \in {x \in DictDecls(Family) : Mine(FieldsCode(x.f))}, es \in DictCalls(Family) :
          c = DictCase(Family, d, es)
  \/ /\ Family = "cross"
     /\ \E da \in XArgsD, ca \in XArgsC,
           dk \in XDictD("k1", TInt), ck \in XDictC("k1", VInt(1), VStr(1)),
           ds \in XDictD("s1", TSlotFunc), cs \in XDictC("s1", VFunc, VStr(1)),
           dd \in XDictD("d1", TStr), cd \in XDictC("d1", VStr(1), VInt(1)) :
          /\ Mine(Len(ca) + 3 * Len(ck) + 5 * Len(cs) + 7 * Len(cd) + Len(da.m) + Len(dk.f))
          /\ c = Case(da, dk, ds, dd, ca, ck, cs, cd)
  \/ /\ Family = "laws"
     /\ \E t \in Types1, u \in UPool, v \in Values1 : c = [t |-> t, u |-> u, v |-> v]

Next == UNCHANGED c
MCSpec == Init /\ [][Next]_c

(* ---------------------------------------------------------------- invariants *)
IsCase == Family # "laws"

CaseTheorems ==
  IsCase => /\ IdealConforms(c)
            /\ SomeAnswerAdmitted(c)
            /\ AllAnyAlwaysRenders(c)
            /\ MustName(c) \subseteq MayName(c)
            /\ MayRender(c) = (MustName(c) = {})

Laws ==
  ~IsCase => /\ MemberImpliesOuterFits(c.t, c.v)
             /\ VerdictDetermined(c.t, c.v)
             /\ AnySkips(c.v)
             /\ OptOK(c.t) => OptionalIsUnionWithNone(c.t, c.v)
             /\ UnionCommutes(c.t, c.u, c.v)
             /\ UnionWidens(c.t, c.u, c.v)
             \* the reference validator agrees with the contract on single members
             /\ ImplMember({}, c.t, c.v) = "ok" => "accept" \in Verdicts(c.t, c.v)
             /\ ImplMember({}, c.t, c.v) = "reject" => "reject" \in Verdicts(c.t, c.v)
             /\ ImplMember({}, c.t, c.v) # "raise"

Export ==
  \/ ~IsCase
  \/ LET ds == Deviations(c) IN
     Serialize((IF ~SeparableDevs(ds) THEN ToJson([fam |-> Family, skip |-> TRUE])
                ELSE ToJson([fam |-> Family, decl |-> c.decl, call |-> c.call,
                             ok |-> MayRender(c), may |-> MayName(c), must |-> MustName(c),
                             devs |-> ds])) \o "\n",
               IOEnv.OUT, [format |-> "TXT", charset |-> "UTF-8",
                           openOptions |-> <<"WRITE", "CREATE", "APPEND">>]).exitValue = 0
=============================================================================
