------------------------------ MODULE Trace_C02 ------------------------------
(***************************************************************************)
(* Trace validation (code -> spec) for C02.  IOEnv.IN names an ndjson file; *)
(* every line records one run of the real tags on a randomly generated      *)
(* argument list:                                                          *)
(*   args, style   the abstract list and the layout the driver chose        *)
(*   text          the symbols the driver put into the tag                  *)
(*   lv            stock-Django values of leaves: [kind ("leaf"/"render"),  *)
(*                 canon (symbols that were evaluated), val (typed value)]  *)
(*   probe, comp, short, slot   what each receiver (TagArgs!Paths) got:     *)
(*                 [o |-> "values" | "tse" | "exc:<Class>" | "malformed" |  *)
(*                  "n/a" (receiver not applicable to this list),          *)
(*                  args, kwargs (sequence of [k, v]), flags]               *)
(*   r2            the same for the second render of the same compiled      *)
(*                 template with Ctx2: [lv, probe, comp, short, slot]        *)
(* Values are typed: int i, str s, float s, bool b, none, list items, dict  *)
(* items (sequence of [k, v]), other s.  (A str marked safe counts as str.) *)
(* Containers carry their Python type as t: the iterables TagArgs!SeqKinds   *)
(* (list, tuple, range, keys - items) and the mappings TagArgs!MapKinds      *)
(* (dict, odict, mproxy, chainmap, userdict - items: sequence of [k, v]).    *)
(* A record is accepted when text = Text(args, style) and, on both paths,   *)
(* the received values are Denote(args) with leaves replaced by the         *)
(* recorded stock values (looked up by the specification's own canonical    *)
(* text), or TemplateSyntaxError when Invalid(args).  Verdicts are total:   *)
(* one ACCEPT / REJECT line per record; a path whose observation equals the *)
(* prediction of a named deviation is reported as "dev:<name>".             *)
(***************************************************************************)
EXTENDS TagArgs, Json, IOUtils

Traces == ndJsonDeserialize(IOEnv.IN)
VARIABLE tid

Unknown == [t |-> "unknown"]
Lookup(kind, e, lv) ==
  LET hits == {j \in 1..Len(lv) : lv[j].kind = kind /\ lv[j].canon = e} IN
  IF hits = {} THEN Unknown ELSE lv[CHOOSE j \in hits : TRUE].val

RECURSIVE Same(_, _)
Same(a, b) ==
  /\ a.t = b.t
  /\ CASE a.t = "int"   -> a.i = b.i
       [] a.t \in {"str", "float", "other"} -> a.s = b.s
       [] a.t = "bool"  -> a.b = b.b
       [] a.t = "none"  -> TRUE
       [] a.t \in SeqKinds -> /\ Len(a.items) = Len(b.items)
                           /\ \A i \in 1..Len(a.items) : Same(a.items[i], b.items[i])
       [] a.t \in MapKinds -> /\ Len(a.items) = Len(b.items)
                           /\ \A i \in 1..Len(a.items) : \E j \in 1..Len(b.items) :
                                 Same(a.items[i].k, b.items[j].k) /\ Same(a.items[i].v, b.items[j].v)
       [] OTHER         -> FALSE

\* Python dict display: entries are inserted in order; an entry whose key EQUALS an earlier key
\* (Python ==: False = 0, True = 1, otherwise same type and value) replaces that entry's value and
\* the earlier key object stays - keep the first key with the last value.
PyKey(k) == IF k.t = "bool" THEN I(IF k.b THEN 1 ELSE 0) ELSE k
KeyEq(a, b) == Same(PyKey(a), PyKey(b))
Dedupe(es) ==
  LET keep == {i \in 1..Len(es) : \A j \in 1..(i - 1) : ~KeyEq(es[i].k, es[j].k)}
      last(i) == CHOOSE j \in i..Len(es) : /\ KeyEq(es[i].k, es[j].k)
                                           /\ \A m \in (j + 1)..Len(es) : ~KeyEq(es[i].k, es[m].k)
      RECURSIVE Pick(_)
      Pick(i) == IF i > Len(es) THEN <<>>
                 ELSE (IF i \in keep THEN <<E(es[i].k, es[last(i)].v)>> ELSE <<>>) \o Pick(i + 1)
  IN Pick(1)

RECURSIVE Ev(_, _), EvItems(_, _, _), EvEntries(_, _, _)
\* what a spread takes out of a value: the items of an iterable that is no mapping (of any type)
ItemsOf(v) == IF v.t \in SeqKinds THEN v.items ELSE <<Unknown>>
Ev(v, lv) ==
  CASE v.t = "leaf"   -> Lookup("leaf", v.e, lv)
    [] v.t = "render" -> Lookup("render", v.e, lv)
    [] v.t = "list"   -> L(EvItems(v.items, 1, lv))
    [] v.t = "dict"   -> D(Dedupe(EvEntries(v.items, 1, lv)))
    [] OTHER          -> v
EvItems(items, i, lv) ==
  IF i > Len(items) THEN <<>>
  ELSE (IF items[i].t = "splice" THEN ItemsOf(Ev(items[i].of, lv)) ELSE <<Ev(items[i], lv)>>)
       \o EvItems(items, i + 1, lv)
\* entries carry k and v; a splice entry carries t and of
IsSplice(x) == "of" \in DOMAIN x
KeyVal(k, lv) == IF k.t = "name" THEN St(k.s) ELSE Ev(k, lv)
EvEntries(items, i, lv) ==
  IF i > Len(items) THEN <<>>
  ELSE (IF IsSplice(items[i])
        \* ... and the entries of a mapping (of any type)
        THEN LET d == Ev(items[i].of, lv) IN IF d.t \in MapKinds THEN d.items ELSE <<E(Unknown, Unknown)>>
        ELSE <<E(KeyVal(items[i].k, lv), Ev(items[i].v, lv))>>)
       \o EvEntries(items, i + 1, lv)

\* first clause on which observation `obs` differs from (outcomes, expect); "" if none
Mismatch(obs, outcomes, expect, path, lv) ==
  IF obs.o \notin outcomes THEN "outcome"
  ELSE IF obs.o # "values" THEN ""
  ELSE IF ~Same(L(EvItems(expect.args, 1, lv)), L(obs.args)) THEN "args"
  ELSE IF ~Same(D(Dedupe(EvEntries(expect.kwargs, 1, lv))), D(obs.kwargs)) THEN "kwargs"
  ELSE IF path = "probe" /\ expect.flags # {obs.flags[i] : i \in 1..Len(obs.flags)} THEN "flags"
  ELSE IF path = "slot" /\ Len(obs.args) # 0 THEN "args"
  ELSE ""

\* c: the context of the render (Ctxs[k]), lv: the stock leaf values recorded for it.  The named
\* deviations are stated for Ctx (k = 1) only.
PathStatus(e, k, lv, obs, path) ==
  IF ~PathApplies(e.args, path) THEN (IF obs.o = "n/a" THEN "ok" ELSE "bad:path_not_applicable") ELSE
  LET inv == Invalid(e.args)
      m == Mismatch(obs, Outcomes(e.args, e.style), IF inv THEN NoValues ELSE DenoteIn(Ctxs[k], e.args), path, lv) IN
  IF m = "" THEN "ok"
  ELSE LET ds == IF k = 1 THEN Devs(e.args) ELSE <<>>
           hits == {j \in 1..Len(ds) : /\ path \in ds[j].paths
                                       /\ Mismatch(obs, ds[j].outcomes, ds[j].expect, path, lv) = ""} IN
       IF hits # {} THEN "dev:" \o ds[CHOOSE j \in hits : TRUE].name
       ELSE IF inv THEN "bad:invalid_not_rejected" ELSE "bad:" \o m

\* e.probe .. e.slot: the first render of the compiled template (context Ctx, leaf values e.lv);
\* e.r2: the second render of the SAME compiled template with Ctx2 ([lv, probe, comp, short, slot])
Verdict(e) ==
  <<IF Text(e.args, e.style) = e.text THEN "ok" ELSE "bad:layout",
    PathStatus(e, 1, e.lv, e.probe, "probe"), PathStatus(e, 1, e.lv, e.comp, "comp"),
    PathStatus(e, 1, e.lv, e.short, "short"), PathStatus(e, 1, e.lv, e.slot, "slot"),
    PathStatus(e, 2, e.r2.lv, e.r2.probe, "probe"), PathStatus(e, 2, e.r2.lv, e.r2.comp, "comp"),
    PathStatus(e, 2, e.r2.lv, e.r2.short, "short"), PathStatus(e, 2, e.r2.lv, e.r2.slot, "slot")>>

RECURSIVE JoinV(_, _)
JoinV(v, i) == IF i > Len(v) THEN "" ELSE " " \o v[i] \o JoinV(v, i + 1)
TrInit == tid = 1
TrNext == /\ tid <= Len(Traces)
          /\ LET v == Verdict(Traces[tid]) IN
             IF \A i \in 1..Len(v) : v[i] = "ok" THEN PrintT("ACCEPT " \o ToString(Traces[tid].id))
             ELSE PrintT("REJECT " \o ToString(Traces[tid].id) \o JoinV(v, 1))
          /\ tid' = tid + 1
TrSpec == TrInit /\ [][TrNext]_tid
=============================================================================
