------------------------------ MODULE Eval_Fam ------------------------------
(* Batch oracle for template families: Run(Flat(P)) for every program of    *)
(* IOEnv.IN, with the flattening theorems as invariants.                    *)
EXTENDS DjcFamilies, Json, IOUtils
Progs == ndJsonDeserialize(IOEnv.IN)
VARIABLE i
Init == i = 0
Emit(p) ==
  LET r == RunFamily(p) IN
  Serialize(ToJson([id |-> p.id, out |-> r.out, err |-> r.err, errs |-> r.errs, zone |-> r.zone, insts |-> r.insts,
                    elems |-> r.elems, marks |-> r.marks, deps |-> Deps(p, r.insts)]) \o "\n",
            IOEnv.OUT, [format |-> "TXT", charset |-> "UTF-8",
                        openOptions |-> <<"WRITE", "CREATE", "APPEND">>]).exitValue = 0
Next == i < Len(Progs) /\ Emit(Progs[i + 1]) /\ i' = i + 1
Spec == Init /\ [][Next]_i
Theorems == i > 0 => FlatIsFamilyFree(Progs[i]) /\ FlatIsIdempotent(Progs[i]) /\ PartialBlockNamesIrrelevant(Progs[i])
=============================================================================
