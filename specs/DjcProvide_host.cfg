SPECIFICATION Spec
CONSTANTS
  N = 3
  Level = "host"
  SelfRef = TRUE
  AllowFail = TRUE
INVARIANT InjectSound
INVARIANT Quiescent
INVARIANT RefsWellFormed
PROPERTY EntryDeletedOnlyWhenDone
