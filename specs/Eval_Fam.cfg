SPECIFICATION Spec
INVARIANT Theorems
