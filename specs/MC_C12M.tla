------------------------------- MODULE MC_C12M ------------------------------
(***************************************************************************)
(* Input space of C12, part (ii): every one-symbol mutation (insert a      *)
(* symbol of TagAlphabet at any position, delete or replace any symbol) of  *)
(* valid tag texts.  The texts are layouts Text(args, style) exported by    *)
(* MC_C02 (IOEnv.IN: ndjson, one [text |-> <<symbols>>] per line).  The     *)
(* harness reads the mutants from TLC's state dump.                         *)
(***************************************************************************)
EXTENDS TagArgs, Json, IOUtils

Bases == ndJsonDeserialize(IOEnv.IN)
VARIABLES b, txt, mut
vars == <<b, txt, mut>>

None == [kind |-> "none", p |-> 0, c |-> ""]
Init == b \in 1..Len(Bases) /\ txt = Bases[b].text /\ mut = None

Apply(m) == mut = None /\ mut' = m /\ txt' = Mutated(txt, m) /\ UNCHANGED b
Next == \/ \E p \in 1..(Len(txt) + 1), c \in TagAlphabet : Apply([kind |-> "ins", p |-> p, c |-> c])
        \/ \E p \in 1..Len(txt) : Apply([kind |-> "del", p |-> p, c |-> ""])
        \/ \E p \in 1..Len(txt) : \E c \in TagAlphabet \ {txt[p]} : Apply([kind |-> "rep", p |-> p, c |-> c])
Spec == Init /\ [][Next]_vars

\* a mutant differs from its base in exactly one position / by exactly one symbol
OneSymbol ==
  LET base == Bases[b].text IN
  CASE mut.kind = "none" -> txt = base
    [] mut.kind = "ins"  -> Len(txt) = Len(base) + 1 /\ MutDel(txt, mut.p) = base
    [] mut.kind = "del"  -> Len(txt) = Len(base) - 1
    [] mut.kind = "rep"  -> Len(txt) = Len(base) /\ \A i \in 1..Len(txt) : i # mut.p => txt[i] = base[i]
=============================================================================
