---------------------------- MODULE RegistryOps ----------------------------
(***************************************************************************)
(* What django_components.ComponentRegistry promises (C15), as pure       *)
(* operators: every call maps a world to the SET of outcomes the property  *)
(* text and the documentation admit.  Registry.tla turns them into a state *)
(* machine; Trace_C15.tla uses them to explain recorded histories.         *)
(*                                                                         *)
(* A configuration K is a record                                           *)
(*   regs   : set of registry ids                                          *)
(*   libof  : [regs -> library id]   (two registries may share a library)  *)
(*   pre    : [library -> [tag -> "builtin" | "user"]]  tags that exist in *)
(*            the Library before the first registry call                   *)
(*   prot   : [library -> set of protected tags]  (mark_protected_tags)    *)
(*   fmt0   : [regs -> formatter]  tag formatter at creation               *)
(*   fmts   : [regs -> set of formatters the registry's settings callable  *)
(*            may switch to]  (empty: static settings)                     *)
(*   names, classes : what the calls range over                            *)
(*   dev    : FALSE: only what C15 promises.  TRUE: additionally the named *)
(*            deviations of the current code (section "known deviations"   *)
(*            at the end) - used only to classify a trace that the         *)
(*            specification proper has already rejected                    *)
(* A formatter is the string "short" (ShorthandComponentFormatter: start   *)
(* tag = component name) or any other string t (ComponentFormatter(t): the *)
(* one start tag t for every component; "component" is the default).       *)
(*                                                                         *)
(* A world W is a record                                                   *)
(*   reg : [regs -> [registered names -> [cls, tag]]]   the dictionary,    *)
(*         plus the tag the component was given when it was registered     *)
(*   lib : [library -> [tags present -> owner]], owner "builtin" / "user"  *)
(*         (the function that was there before) or "comp" (a component tag *)
(*         installed by a registry)                                        *)
(*   fmt : [regs -> formatter in force]                                    *)
(*   stale : always {} in the specification proper; see "known deviations" *)
(***************************************************************************)
EXTENDS Naturals, FiniteSets

Short == "short"
TagOf(f, n) == IF f = Short THEN n ELSE f

Libs(K) == {K.libof[r] : r \in K.regs}
Drop(f, x) == [y \in DOMAIN f \ {x} |-> f[y]]
Put(f, x, v) == [y \in DOMAIN f \cup {x} |-> IF y = x THEN v ELSE f[y]]
NoEntries == [y \in {} |-> y]

InitWorld(K) == [reg |-> [r \in K.regs |-> NoEntries], lib |-> K.pre, fmt |-> K.fmt0, stale |-> {}]

\* name -> class view of one registry, as a set of pairs: what all() must return
Dict(regr) == {<<n, regr[n].cls>> : n \in DOMAIN regr}

\* the registered components that use tag t of library l
Users(K, reg, l, t) ==
  {rn \in UNION {{<<r, n>> : n \in DOMAIN reg[r]} : r \in K.regs} :
     K.libof[rn[1]] = l /\ reg[rn[1]][rn[2]].tag = t}

\* stale references to tag t of library l (only in deviating worlds, else {})
StaleOn(K, stale, l, t) == {s \in stale : K.libof[s[1]] = l /\ s[2] = t}

\* "a tag exists exactly while at least one registered component uses it": after a removal,
\* every tag of T that is left without users disappears -- unless it is protected.
Sweep(K, reg, stale, lib, l, T) ==
  [lib EXCEPT ![l] = [t \in {x \in DOMAIN lib[l] :
                               ~(x \in T /\ x \notin K.prot[l] /\ Users(K, reg, l, x) = {}
                                        /\ StaleOn(K, stale, l, x) = {})}
                        |-> lib[l][t]]]

Out(W, res) == [reg |-> W.reg, lib |-> W.lib, fmt |-> W.fmt, stale |-> W.stale,
                res |-> res, cls |-> "-", yes |-> FALSE, all |-> {}]
WorldOf(o) == [reg |-> o.reg, lib |-> o.lib, fmt |-> o.fmt, stale |-> o.stale]

(* ---- register(name, cls) ---------------------------------------------- *)
RegisterO(K, W, r, n, c) ==
  LET l   == K.libof[r]
      t   == TagOf(W.fmt[r], n)
      cur == W.reg[r]
      ent == [cls |-> c, tag |-> t]
  IN
  IF n \in DOMAIN cur /\ cur[n].cls # c
  THEN {Out(W, "AlreadyRegistered")}                       \* conflicting name: refused, nothing changes
  ELSE IF n \in DOMAIN cur /\ cur[n].tag = t
  THEN {Out(W, "ok")}                                      \* same class again: a no-op
  ELSE IF n \in DOMAIN cur
  THEN \* Same class again after the registry's formatter was switched.  The statement says
       \* "no-op"; moving the component to the tag of the new formatter is the other reading
       \* that keeps every invariant.  Both are admitted (the choice is visible in lib).
       {Out(W, "ok")} \cup
       (IF t \in K.prot[l]
        THEN {Out(W, "TagProtected")}
        ELSE LET reg2 == [W.reg EXCEPT ![r] = Put(cur, n, ent)]
                 lib1 == [W.lib EXCEPT ![l] = Put(W.lib[l], t, "comp")]
             IN {Out([W EXCEPT !.reg = reg2,
                               !.lib = Sweep(K, reg2, W.stale, lib1, l, {cur[n].tag}),
                               !.stale = W.stale \ {<<r, t, n>>}], "ok")})
  ELSE IF t \in K.prot[l]
  THEN {Out(W, "TagProtected")}                            \* would overwrite a protected tag: refused
  ELSE {Out([W EXCEPT !.reg = [W.reg EXCEPT ![r] = Put(cur, n, ent)],
                      !.lib = [W.lib EXCEPT ![l] = Put(W.lib[l], t, "comp")],
                      !.stale = W.stale \ {<<r, t, n>>}], "ok")}

\* @register(name, registry=r) applied to class c: registers, and evaluates to the class itself
DecorateO(K, W, r, n, c) ==
  {[o EXCEPT !.cls = IF o.res = "ok" THEN c ELSE "-"] : o \in RegisterO(K, W, r, n, c)}

(* ---- unregister(name) -------------------------------------------------- *)
UnregisterO(K, W, r, n) ==
  LET l == K.libof[r]
      cur == W.reg[r]
  IN IF n \notin DOMAIN cur
     THEN {Out(W, "NotRegistered")}
     ELSE LET reg2 == [W.reg EXCEPT ![r] = Drop(cur, n)]
          IN {Out([W EXCEPT !.reg = reg2,
                            !.lib = Sweep(K, reg2, W.stale, W.lib, l, {cur[n].tag})], "ok")}

(* ---- clear() ----------------------------------------------------------- *)
ClearO(K, W, r) ==
  LET l == K.libof[r]
      cur == W.reg[r]
      reg2 == [W.reg EXCEPT ![r] = NoEntries]
  IN {Out([W EXCEPT !.reg = reg2,
                    !.lib = Sweep(K, reg2, W.stale, W.lib, l, {cur[n].tag : n \in DOMAIN cur}),
                    !.stale = {s \in W.stale : s[1] # r}], "ok")}

(* ---- queries: never change anything ------------------------------------ *)
GetO(K, W, r, n) ==
  IF n \in DOMAIN W.reg[r]
  THEN {[Out(W, "ok") EXCEPT !.cls = W.reg[r][n].cls]}
  ELSE {Out(W, "NotRegistered")}

HasO(K, W, r, n) == {[Out(W, "ok") EXCEPT !.yes = (n \in DOMAIN W.reg[r])]}

AllO(K, W, r) == {[Out(W, "ok") EXCEPT !.all = Dict(W.reg[r])]}

\* all() hands out a copy: the caller empties / extends the returned dict, nothing changes
AllMutateO(K, W, r) == AllO(K, W, r)

(* ---- the registry's settings callable starts answering with formatter f - *)
SetFmtO(K, W, r, f) == {Out([W EXCEPT !.fmt = [W.fmt EXCEPT ![r] = f]], "ok")}

\* A call is a record [op, r, n, c]; unused fields hold "-"; for "setfmt" n is the formatter.
Promised(K, W, e) ==
  CASE e.op = "register"   -> RegisterO(K, W, e.r, e.n, e.c)
    [] e.op = "decorate"   -> DecorateO(K, W, e.r, e.n, e.c)
    [] e.op = "unregister" -> UnregisterO(K, W, e.r, e.n)
    [] e.op = "clear"      -> ClearO(K, W, e.r)
    [] e.op = "get"        -> GetO(K, W, e.r, e.n)
    [] e.op = "has"        -> HasO(K, W, e.r, e.n)
    [] e.op = "all"        -> AllO(K, W, e.r)
    [] e.op = "allmutate"  -> AllMutateO(K, W, e.r)
    [] e.op = "setfmt"     -> SetFmtO(K, W, e.r, e.n)

(* ---- the properties, as predicates on (K, W) ---------------------------- *)
WorldTypeOK(K, W) ==
  /\ DOMAIN W.reg = K.regs /\ DOMAIN W.fmt = K.regs /\ DOMAIN W.lib = Libs(K)
  /\ \A r \in K.regs : /\ DOMAIN W.reg[r] \subseteq K.names
                       /\ \A n \in DOMAIN W.reg[r] : W.reg[r][n].cls \in K.classes
  /\ \A l \in Libs(K) : \A t \in DOMAIN W.lib[l] : W.lib[l][t] \in {"builtin", "user", "comp"}
  /\ W.stale = {}

\* A tag is a component tag exactly while some registered component uses it; every tag in
\* use exists; whatever else is in the library is an untouched tag that was there before.
TagIffUsedP(K, W) ==
  /\ \A r \in K.regs : \A n \in DOMAIN W.reg[r] : W.reg[r][n].tag \in DOMAIN W.lib[K.libof[r]]
  /\ \A l \in Libs(K) : \A t \in DOMAIN W.lib[l] :
       /\ (W.lib[l][t] = "comp") <=> (Users(K, W.reg, l, t) # {})
       /\ W.lib[l][t] # "comp" => t \in DOMAIN K.pre[l] /\ W.lib[l][t] = K.pre[l][t]

\* Protected tags are never overwritten, removed or created by a registry.
ProtectedUntouchedP(K, W) ==
  \A l \in Libs(K) : \A t \in K.prot[l] :
    IF t \in DOMAIN K.pre[l]
    THEN t \in DOMAIN W.lib[l] /\ W.lib[l][t] = K.pre[l][t]
    ELSE t \notin DOMAIN W.lib[l]

(* ---- unspecified zone --------------------------------------------------- *)
\* An UNPROTECTED tag that existed before and was taken over by a component: once its last
\* user is gone the statement says the tag does not exist; an implementation that puts the
\* user's original tag back is not contradicted by the documentation either.  Such tags may
\* therefore be absent or present with their original owner.
Maybe(K, W, l) == DOMAIN K.pre[l] \ DOMAIN W.lib[l]

LibAdmits(K, W, l, obs) ==      \* obs: observed [tag -> owner] of library l
  /\ DOMAIN W.lib[l] \subseteq DOMAIN obs
  /\ \A t \in DOMAIN W.lib[l] : obs[t] = W.lib[l][t]
  /\ \A t \in DOMAIN obs \ DOMAIN W.lib[l] : t \in Maybe(K, W, l) /\ obs[t] = K.pre[l][t]

(* ---- known deviations of the current code (KNOWN_FINDINGS.txt) ----------- *)
\* Each deviation is a named extra outcome describing exactly what the code does on one
\* shape of call.  The specification proper (Promised, MC_C15's invariants) never uses them;
\* the harness uses them only to decide whether a failure is the known one.
\*
\* fmt-switch-reregister:old-tag-orphaned -- the same class is registered again under the same
\* name after the registry's formatter changed.  The code installs the tag of the new
\* formatter and re-points the entry to it, but never releases the reference the name holds
\* on its old tag.  `stale` records such references <<registry, tag, name>>: the old tag then
\* outlives its last user (it is swept only when users AND stale references are gone);
\* clear() forgets the stale references of its registry without removing the orphaned tag.
DevOutcomes(K, W, e) ==
  IF e.op \in {"register", "decorate"}
  THEN LET r == e.r  n == e.n  c == e.c
           l == K.libof[r]  t == TagOf(W.fmt[r], n)  cur == W.reg[r] IN
       IF n \in DOMAIN cur /\ cur[n].cls = c /\ cur[n].tag # t /\ t \notin K.prot[l]
       THEN {[name |-> "fmt-switch-reregister:old-tag-orphaned",
              o |-> [Out([W EXCEPT !.reg = [W.reg EXCEPT ![r] = Put(cur, n, [cls |-> c, tag |-> t])],
                                   !.lib = [W.lib EXCEPT ![l] = Put(W.lib[l], t, "comp")],
                                   !.stale = (W.stale \ {<<r, t, n>>}) \cup {<<r, cur[n].tag, n>>}],
                         "ok")
                     EXCEPT !.cls = IF e.op = "decorate" THEN c ELSE "-"]]}
       ELSE {}
  ELSE {}

Outcomes(K, W, e) ==
  Promised(K, W, e) \cup (IF K.dev THEN {d.o : d \in DevOutcomes(K, W, e)} ELSE {})
=============================================================================
