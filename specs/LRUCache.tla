------------------------------ MODULE LRUCache ------------------------------
(***************************************************************************)
(* Abstract bounded LRU cache: what django_components.util.cache.LRUCache  *)
(* promises (C18).  `order` lists the cached keys, most recently used      *)
(* first; `val` maps cached keys to values; `ret` is the value returned by *)
(* the last call (observation only).  The pure operators Do* are reused by *)
(* TemplateCache, which composes a get and a set into one compile step.    *)
(***************************************************************************)
EXTENDS Naturals, Sequences, FiniteSets

CONSTANTS Keys, Vals, MaxSize, None
\* MaxSize \in Nat, or Unbounded (-1) meaning "no limit"
Unbounded == 0 - 1

VARIABLES order, val, ret
lruVars == <<order, val, ret>>

Range(s) == {s[i] : i \in 1..Len(s)}
Without(s, k) == SelectSeq(s, LAMBDA x : x # k)
St(o, f, r) == [order |-> o, val |-> f, ret |-> r]

DoGet(o, f, k) ==
  IF k \in DOMAIN f THEN St(<<k>> \o Without(o, k), f, f[k]) ELSE St(o, f, None)

DoHas(o, f, k) == St(o, f, k \in DOMAIN f)

DoSet(o, f, k, v) ==
  IF MaxSize # Unbounded /\ MaxSize <= 0 THEN St(o, f, None)
  ELSE IF k \in DOMAIN f
  THEN St(<<k>> \o Without(o, k), [f EXCEPT ![k] = v], None)
  ELSE IF MaxSize # Unbounded /\ Len(o) >= MaxSize
  THEN LET victim == o[Len(o)]
           kept   == SubSeq(o, 1, Len(o) - 1) IN
       St(<<k>> \o kept,
          [x \in (DOMAIN f \ {victim}) \cup {k} |-> IF x = k THEN v ELSE f[x]], None)
  ELSE St(<<k>> \o o, [x \in DOMAIN f \cup {k} |-> IF x = k THEN v ELSE f[x]], None)

DoClear == St(<<>>, <<>>, None)

Becomes(s) == order' = s.order /\ val' = s.val /\ ret' = s.ret

LRUInit == order = <<>> /\ val = <<>> /\ ret = None

Get(k)    == Becomes(DoGet(order, val, k))
Has(k)    == Becomes(DoHas(order, val, k))
Set(k, v) == Becomes(DoSet(order, val, k, v))
Clear     == Becomes(DoClear)

LRUNext == \/ \E k \in Keys : Get(k) \/ Has(k)
           \/ \E k \in Keys, v \in Vals : Set(k, v)
           \/ Clear

LRUSpec == LRUInit /\ [][LRUNext]_lruVars

(* ---- properties ------------------------------------------------------- *)
Bounded == MaxSize # Unbounded => Len(order) <= MaxSize
DictMatchesList == /\ Range(order) = DOMAIN val
                   /\ Cardinality(Range(order)) = Len(order)
TypeOK == /\ Range(order) \subseteq Keys
          /\ \A k \in DOMAIN val : val[k] \in Vals

\* A key disappears only through Clear or because it was the least recently used one
\* at the moment a *new* key was inserted into a full cache.
EvictsLRU == [][\/ order' = <<>>
                \/ \A k \in DOMAIN val \ DOMAIN val' :
                     /\ k = order[Len(order)]
                     /\ Len(order) = MaxSize
                     /\ Cardinality(DOMAIN val' \ DOMAIN val) = 1]_lruVars
=============================================================================
