------------------------------ MODULE Trace_X02 ------------------------------
(***************************************************************************)
(* Trace validation (code -> spec) for X02.  IOEnv.IN names an ndjson file; *)
(* every line is one recorded case                                          *)
(*   [id, decl, call, obs |-> [o, named, same, comp]]                       *)
(* (decl / call as in TypedInputs; obs = what the real Component subclass   *)
(* did when rendered with the call).  The observation must conform to       *)
(* TypedInputs (same Conforms as the model checker exports from); if not,   *)
(* it is reported under the key of the smallest set of named deviations     *)
(* (TypedInputsDev) that predicts exactly this observation, else under the  *)
(* name of the failing clause.  One ACCEPT / REJECT line per case.          *)
(***************************************************************************)
EXTENDS TypedInputsDev, Json, IOUtils

Traces == ndJsonDeserialize(IOEnv.IN)

VARIABLE tid

SetOf(s) == {s[i] : i \in DOMAIN s}
ObsOf(t)  == [o |-> t.obs.o, named |-> SetOf(t.obs.named), same |-> t.obs.same, comp |-> t.obs.comp]
CaseOf(t) == [decl |-> t.decl, call |-> t.call]

(* ---- the generator's side conditions (typing would normalise other terms) *)
TypeKinds == {"any", "int", "str", "bool", "none", "opt", "union", "list", "dict", "tuple",
              "slotfunc", "slotcontent"}
RECURSIVE WFType(_)
WFType(t) ==
  /\ t.k \in TypeKinds
  /\ \A i \in DOMAIN t.a : WFType(t.a[i])
  /\ t.k \in {"any", "int", "str", "bool", "none", "slotfunc", "slotcontent"} => Len(t.a) = 0
  /\ t.k \in {"opt", "list"} => Len(t.a) = 1
  /\ t.k = "dict" => Len(t.a) = 2
  /\ t.k = "opt" => /\ t.a[1].k \notin {"opt", "none"}
                    /\ t.a[1].k = "union" => \A i \in DOMAIN t.a[1].a : t.a[1].a[i].k # "none"
  /\ t.k = "union" => /\ Len(t.a) >= 2
                      /\ \A i \in DOMAIN t.a : t.a[i].k \notin {"union", "opt"}
                      /\ \A i, j \in DOMAIN t.a : i # j => t.a[i] # t.a[j]
WFDict(d, es) == /\ \A i \in DOMAIN d.f : WFType(d.f[i].t)
                 /\ \A i, j \in DOMAIN d.f : i # j => d.f[i].name # d.f[j].name
                 /\ \A i, j \in DOMAIN es : i # j => es[i].key # es[j].key
                 /\ d.any => Len(d.f) = 0
InputOK(t) ==
  /\ \A i \in DOMAIN t.decl.args.m : WFType(t.decl.args.m[i])
  /\ t.decl.args.any => Len(t.decl.args.m) = 0
  /\ WFDict(t.decl.kwargs, t.call.kwargs)
  /\ WFDict(t.decl.slots, t.call.slots)
  /\ WFDict(t.decl.data, t.call.data)
  /\ t.obs.o \in {"ok", "type", "other"}

(* ---- named failing clauses *)
Failing(c, obs) ==
  IF Conforms(c, obs) THEN {}
  ELSE LET key == KeyOf(c, obs) IN
       IF key # "" THEN {"dev:" \o key}
       ELSE CASE obs.o = "ok" /\ ~MayRender(c) -> {"rendered_although_must_reject"}
              [] obs.o = "ok"                  -> {"render_differs_from_untyped_component"}
              [] obs.o = "other"               -> {"exception_is_not_TypeError"}
              [] obs.o = "type" /\ MayName(c) = {} -> {"rejected_although_valid"}
              [] obs.o = "type" /\ ~obs.comp   -> {"message_does_not_name_component"}
              [] OTHER                         -> {"message_names_no_offending_item"}

TrInit == tid = 1

Check ==
  /\ tid <= Len(Traces)
  /\ LET t == Traces[tid] IN
     IF ~InputOK(t) THEN PrintT(<<"REJECT", t.id, 0, {"malformed_case"}>>)
     ELSE LET bad == Failing(CaseOf(t), ObsOf(t)) IN
          IF bad = {} THEN PrintT(<<"ACCEPT", t.id>>) ELSE PrintT(<<"REJECT", t.id, 1, bad>>)
  /\ tid' = tid + 1

TrSpec == TrInit /\ [][Check]_tid

\* the theorems of the specification on the recorded (deeper) cases
TraceTheorems ==
  tid <= Len(Traces) =>
    LET t == Traces[tid] IN
    InputOK(t) => /\ IdealConforms(CaseOf(t))
                  /\ SomeAnswerAdmitted(CaseOf(t))
                  /\ AllAnyAlwaysRenders(CaseOf(t))
=============================================================================
