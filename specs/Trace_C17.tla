------------------------------ MODULE Trace_C17 ------------------------------
(***************************************************************************)
(* Trace validation (code -> spec) for ComponentsFileSystemFinder.         *)
(* IOEnv.IN names an ndjson file; each line is one recorded session on the *)
(* real finder under one configuration `cfg` with one or two component     *)
(* directories (roots 0, 1):                                               *)
(*   add / del  a file [r, p] was created / removed on disk                *)
(*   list       got = the (root, path) pairs yielded by finder.list([])    *)
(*   find       finder.find(lookup): got in {"miss","sfo","hit",           *)
(*              "outside","error"}, rel / r = returned file                *)
(*   findall    finder.find(p, all=True): roots of the returned files      *)
(*   serve      django.contrib.staticfiles.views.serve(p): "hit" = 200     *)
(*              with the content of that file, "miss" = 404                *)
(* The specification state is the tree; every observation must equal what  *)
(* Finder determines for it.  An observation that differs but equals what  *)
(* the named deviation (suffix compiled as a regex) predicts is reported   *)
(* as "dev:<class>" instead of a plain failing clause.  One REJECT line    *)
(* per failing event, ACCEPT for a trace without any.                      *)
(***************************************************************************)
EXTENDS Finder, TLC, Json, IOUtils

Traces == ndJsonDeserialize(IOEnv.IN)

VARIABLES tid, l, phase, tree, clean
trVars == <<tid, l, phase, tree, clean>>

Events == Traces[tid].events
Ev == Events[l]
C == Traces[tid].cfg

TrInit == tid = 1 /\ l = 1 /\ phase = "step" /\ tree = {} /\ clean = TRUE

File(r, p) == [r |-> r, p |-> p]
PathsIn(t) == {e.p : e \in t}
RootsOf(p, t) == {e.r : e \in {x \in t : x.p = p}}
SuffixesFine == \A p \in EffAllowed(C) \cup EffForbidden(C) :
                  p.k = "suffix" => SuffixInScope(p.s)

Step == /\ tid <= Len(Traces) /\ phase = "step" /\ l <= Len(Events)
        /\ tree' = CASE Ev.op = "add" -> tree \cup {File(Ev.r, Ev.p)}
                     [] Ev.op = "del" -> tree \ {File(Ev.r, Ev.p)}
                     [] OTHER -> tree
        /\ phase' = "cmp" /\ UNCHANGED <<tid, l, clean>>

Dev(keys) == {"dev:" \o k : k \in keys}

\* ---- list ---------------------------------------------------------------
ListFailing(e) ==
  LET got == {File(e.got[i].r, e.got[i].p) : i \in DOMAIN e.got}
      wrong == {x \in tree : (x \in got) # Exposed(x.p, C)}
      explained == {x \in wrong : (x \in got) = DevExposed(x.p, C) /\ DevKeys(x.p, C) # {}} IN
  (IF Cardinality(got) # Len(e.got) THEN {"list_duplicate"} ELSE {})
  \cup (IF got \subseteq tree THEN {} ELSE {"list_unknown_file"})
  \cup (IF wrong \ explained # {} THEN {"list_exposure"} ELSE {})
  \cup Dev(UNION {DevKeys(x.p, C) : x \in explained})

\* ---- find(lookup) -------------------------------------------------------
FindFailing(e) ==
  LET lk == Lookup(e.abs, e.parts)
      t0 == PathsIn(tree)                  \* exposure does not depend on the root
      want == Expect(lk, t0, C)
      holders == IF Inside(lk) THEN RootsOf(RelOf(lk), tree) ELSE {}
      rootOK == e.got # "hit" \/ e.r \in holders IN
  IF Complies(want, lk, e.got, e.rel) /\ rootOK THEN {}
  ELSE IF /\ Inside(lk) /\ RelOf(lk) \in t0 /\ DevKeys(RelOf(lk), C) # {}
          /\ Complies(DevExpect(lk, t0, C), lk, e.got, e.rel) /\ rootOK
       THEN Dev(DevKeys(RelOf(lk), C))
       ELSE IF e.got \in {"outside"} \/ (e.got = "hit" /\ ~Inside(lk)) THEN {"escape"}
       ELSE IF ~rootOK THEN {"find_wrong_root"}
       ELSE {"find_exposure"}

\* ---- find(p, all=True) --------------------------------------------------
FindAllFailing(e) ==
  LET got == Range(e.got)
      holders == RootsOf(e.p, tree) IN
  IF Len(e.got) # Cardinality(got) THEN {"findall_duplicate"}
  ELSE IF got = (IF Exposed(e.p, C) THEN holders ELSE {}) THEN {}
  ELSE IF DevKeys(e.p, C) # {} /\ got = (IF DevExposed(e.p, C) THEN holders ELSE {})
       THEN Dev(DevKeys(e.p, C))
       ELSE {"findall_exposure"}

\* ---- static serve view --------------------------------------------------
ServeFailing(e) ==
  LET there == e.p \in PathsIn(tree)
      want == there /\ Exposed(e.p, C)
      dev == there /\ DevExposed(e.p, C) IN
  IF e.got \notin {"hit", "miss", "sfo"} THEN {"serve_wrong_content"}
  ELSE IF (e.got = "hit") = want THEN {}
  ELSE IF there /\ DevKeys(e.p, C) # {} /\ (e.got = "hit") = dev THEN Dev(DevKeys(e.p, C))
  ELSE {"serve_exposure"}

Failing(e) ==
  IF ~WellFormedCfg(C) \/ ~SuffixesFine THEN {"bad_case"} ELSE
  CASE e.op \in {"add", "del"} -> {}
    [] e.op = "list"    -> ListFailing(e)
    [] e.op = "find"    -> FindFailing(e)
    [] e.op = "findall" -> FindAllFailing(e)
    [] e.op = "serve"   -> ServeFailing(e)

Cmp == /\ tid <= Len(Traces) /\ phase = "cmp"
       /\ LET f == Failing(Ev) IN
          /\ f # {} => PrintT(<<"REJECT", Traces[tid].id, l, f>>)
          /\ clean' = (clean /\ f = {})
       /\ l' = l + 1 /\ phase' = "step" /\ UNCHANGED <<tid, tree>>

Done == /\ tid <= Len(Traces) /\ phase = "step" /\ l > Len(Events)
        /\ clean => PrintT(<<"ACCEPT", Traces[tid].id>>)
        /\ tid' = tid + 1 /\ l' = 1 /\ phase' = "step" /\ tree' = {} /\ clean' = TRUE

TrNext == Step \/ Cmp \/ Done
TrSpec == TrInit /\ [][TrNext]_trVars

\* the theorems of Finder on every file that ever existed in a trace
TraceTheorems == tid <= Len(Traces) =>
                   \A x \in tree : /\ DefaultsHideBackend(x.p, C) /\ ForbidWins(x.p, C)
                                   /\ EmptyAllowedHidesAll(x.p, C)
=============================================================================
