------------------------------- MODULE MC_C02 -------------------------------
(***************************************************************************)
(* Bounded instance of TagArgs for C02 (and the input space of C12).       *)
(* Argument lists are built bottom-up by a stack machine: PushLeaf puts a   *)
(* leaf on the stack, Wrap / MkPair / MkList / MkDict combine the topmost   *)
(* items, Finish* turns the single remaining value into the next argument.  *)
(* Every tree has exactly one construction, so BFS enumerates every         *)
(* argument list inside the bounds exactly once; -simulate samples deeper   *)
(* ones.  Complete argument lists (empty stack) are exported as one JSON    *)
(* line each: args, the text under every style of a pairwise covering array *)
(* of layout knobs, and Denote(args) / "invalid" as the expected outcome.   *)
(***************************************************************************)
EXTENDS TagArgs, Json, IOUtils

CONSTANTS MaxLeaves,     \* leaves in one argument list
          MaxCont,       \* list/dict literals in one argument list
          MaxDepth,      \* nesting depth of literals
          MaxWidth,      \* items per literal
          MaxListWidth,  \* items per list literal (<= MaxWidth; smaller: the bound is spent on dict entries)
          MaxArgs,       \* arguments
          Alpha,         \* leaf alphabet: "small", "rich" (syntax-sensitive), "vals" / "core" (value-sensitive),
                         \* "types" (containers by Python type), "mixed"
          AllowInvalid,  \* generate (at most one) documented-invalid construct
          StyleFrom, StyleTo    \* slice of Styles whose texts this run exports

VARIABLES stk, args, nl, nc, bad
vars == <<stk, args, nl, nc, bad>>

Styles == <<
  [sep |-> " ", padl |-> "", padr |-> "", wo |-> "", wc |-> "", wbc |-> "", wac |-> "", wbk |-> "", wak |-> "", wbp |-> "", wap |-> "", wbf |-> "", waf |-> "", wst |-> "", wtr |-> "", trail |-> FALSE, q |-> "dq", slash |-> FALSE],
  [sep |-> "  ", padl |-> "\t", padr |-> "\t", wo |-> "\t", wc |-> "", wbc |-> "\t", wac |-> "\t", wbk |-> "\t", wak |-> "", wbp |-> "\t", wap |-> "\t", wbf |-> "\t", waf |-> "\t", wst |-> "\t", wtr |-> "\t", trail |-> TRUE, q |-> "sq", slash |-> TRUE],
  [sep |-> "\n", padl |-> "", padr |-> "", wo |-> "\n", wc |-> "\n", wbc |-> "", wac |-> "\n", wbk |-> "\n", wak |-> "\n", wbp |-> "", wap |-> "\n", wbf |-> "", waf |-> "\n", wst |-> "\n", wtr |-> "\n", trail |-> FALSE, q |-> "dq", slash |-> TRUE],
  [sep |-> "\n  ", padl |-> "\n", padr |-> "", wo |-> "", wc |-> "\n", wbc |-> "\n", wac |-> "", wbk |-> "", wak |-> "\n", wbp |-> "", wap |-> "", wbf |-> "\n", waf |-> "", wst |-> "", wtr |-> "", trail |-> TRUE, q |-> "sq", slash |-> TRUE],
  [sep |-> "  ", padl |-> "", padr |-> "\t", wo |-> "", wc |-> "\t", wbc |-> "", wac |-> "\t", wbk |-> "\t", wak |-> "\t", wbp |-> "\t", wap |-> "", wbf |-> "", waf |-> "\t", wst |-> "", wtr |-> "", trail |-> TRUE, q |-> "dq", slash |-> FALSE],
  [sep |-> "\n", padl |-> "", padr |-> " ", wo |-> " ", wc |-> "", wbc |-> " ", wac |-> "", wbk |-> "", wak |-> "", wbp |-> " ", wap |-> "", wbf |-> " ", waf |-> "", wst |-> " ", wtr |-> "", trail |-> FALSE, q |-> "sq", slash |-> FALSE],
  [sep |-> " ", padl |-> " ", padr |-> " ", wo |-> "", wc |-> " ", wbc |-> " ", wac |-> "", wbk |-> " ", wak |-> " ", wbp |-> " ", wap |-> " ", wbf |-> "", waf |-> "", wst |-> " ", wtr |-> " ", trail |-> TRUE, q |-> "dq", slash |-> FALSE],
  [sep |-> "\n  ", padl |-> "", padr |-> "", wo |-> "", wc |-> "", wbc |-> "", wac |-> "\n", wbk |-> "", wak |-> "", wbp |-> "\n", wap |-> "\n", wbf |-> "", waf |-> "", wst |-> "", wtr |-> "\n", trail |-> FALSE, q |-> "sq", slash |-> FALSE],
  [sep |-> "\n  ", padl |-> "", padr |-> "\t", wo |-> "\t", wc |-> "\t", wbc |-> "", wac |-> "", wbk |-> "", wak |-> "", wbp |-> "", wap |-> "\t", wbf |-> "\t", waf |-> "", wst |-> "", wtr |-> "", trail |-> FALSE, q |-> "dq", slash |-> TRUE],
  [sep |-> "  ", padl |-> " ", padr |-> "", wo |-> "", wc |-> " ", wbc |-> "", wac |-> " ", wbk |-> "", wak |-> " ", wbp |-> "", wap |-> "", wbf |-> " ", waf |-> " ", wst |-> " ", wtr |-> " ", trail |-> FALSE, q |-> "dq", slash |-> TRUE],
  [sep |-> " ", padl |-> "", padr |-> "", wo |-> "\n", wc |-> "", wbc |-> "\n", wac |-> "\n", wbk |-> "\n", wak |-> "\n", wbp |-> "\n", wap |-> "\n", wbf |-> "\n", waf |-> "\n", wst |-> "", wtr |-> "\n", trail |-> TRUE, q |-> "sq", slash |-> TRUE],
  [sep |-> "\n", padl |-> "\t", padr |-> "", wo |-> "", wc |-> "", wbc |-> "\t", wac |-> "", wbk |-> "\t", wak |-> "\t", wbp |-> "\t", wap |-> "\t", wbf |-> "\t", waf |-> "\t", wst |-> "", wtr |-> "", trail |-> TRUE, q |-> "sq", slash |-> TRUE],
  [sep |-> "  ", padl |-> "", padr |-> "\n", wo |-> "\n", wc |-> "", wbc |-> "", wac |-> "", wbk |-> "", wak |-> "", wbp |-> "", wap |-> "", wbf |-> "\n", waf |-> "", wst |-> "", wtr |-> "\n", trail |-> FALSE, q |-> "dq", slash |-> FALSE],
  [sep |-> "\n  ", padl |-> "", padr |-> "", wo |-> " ", wc |-> "", wbc |-> " ", wac |-> "", wbk |-> " ", wak |-> "", wbp |-> " ", wap |-> " ", wbf |-> "", waf |-> " ", wst |-> " ", wtr |-> "", trail |-> TRUE, q |-> "dq", slash |-> TRUE],
  [sep |-> " ", padl |-> "", padr |-> "", wo |-> "\t", wc |-> "", wbc |-> "\t", wac |-> "\t", wbk |-> "\t", wak |-> "", wbp |-> "\t", wap |-> "", wbf |-> "\t", waf |-> "\t", wst |-> "", wtr |-> "\t", trail |-> FALSE, q |-> "dq", slash |-> TRUE] >>

NStyles == Len(Styles)
Knobs == {"wo", "wc", "wbc", "wac", "wbk", "wak", "wbp", "wap", "wbf", "waf", "wst", "wtr", "padl", "padr"}
On(st, k) == st[k] # ""
\* Every pair of whitespace knobs occurs in all four on/off combinations, every knob with
\* every trail / quote / slash choice, and every separator and whitespace character is used.
PairwiseCovered ==
  /\ \A k1 \in Knobs : \A k2 \in Knobs \ {k1} : \A b1 \in BOOLEAN, b2 \in BOOLEAN :
        \E i \in 1..NStyles : On(Styles[i], k1) = b1 /\ On(Styles[i], k2) = b2
  /\ \A k \in Knobs : \A b \in BOOLEAN, t \in BOOLEAN, sl \in BOOLEAN, q \in {"dq", "sq"} :
        /\ \E i \in 1..NStyles : On(Styles[i], k) = b /\ Styles[i].trail = t
        /\ \E i \in 1..NStyles : On(Styles[i], k) = b /\ Styles[i].slash = sl
        /\ \E i \in 1..NStyles : On(Styles[i], k) = b /\ Styles[i].q = q
  /\ \A sp \in {" ", "\n", "  ", "\n  "} : \E i \in 1..NStyles : Styles[i].sep = sp
  /\ \A w \in {" ", "\n", "\t"} : \E i \in 1..NStyles : Styles[i].wo = w \/ Styles[i].wac = w
ASSUME PairwiseCovered
ASSUME DocExamplesOK
ASSUME CtxsOK

(* ------------------------------ alphabets ----------------------------- *)
SmallLeaves == {Var("x"), Var("xs"), Var("d"), Str(1), Filt(Var("x"), <<FlA("add", Num("2"))>>)}
RichLeaves ==
  {Var("x"), Var("s"), Var("xs"), Var("ys"), Var("e0"), Var("d"), Var("d2"), Var("o.p.q"), Var("xs.1"),
   Num("42"), Num("-1.5"), Num("0"),
   Str(1), Str(2), Str(3), Str(4), Str(5), Str(6), Str(7), Str(8),
   Trans(1), Trans(3), Filt(Trans(1), <<Fl("upper")>>),
   Tpl(1), Tpl(2), Tpl(3), Tpl(4), Tpl(5), Tpl(6), Tpl(7), Tpl(8),
   Filt(Var("x"), <<FlA("add", Num("2"))>>),
   Filt(Str(1), <<Fl("upper")>>),
   Filt(Var("s"), <<FlA("default", Str(2)), Fl("upper")>>),
   Filt(Var("nope"), <<FlA("default", Str(3))>>),
   Filt(Var("xs"), <<Fl("first"), FlA("add", Var("x"))>>),
   Filt(Str(2), <<FlA("cut", Str(4)), Fl("title")>>),
   Filt(Var("xs"), <<FlA("slice", Str(9))>>),
   Filt(Var("xs"), <<FlA("join", Trans(1))>>),
   Filt(Var("d2"), <<FlA("default", Var("d"))>>),
   Var("only")}
\* Value-sensitive alphabets.  The property holds "against all context values", so every argument
\* position (argument, keyword / aggregate value, list item, dict key, dict value, spread operand,
\* filter argument, single-tag and rendered nested string) must see the values that are easily
\* confused with "nothing" - None (variable, literal, failed lookup, item of a list), False, 0, "",
\* a missing variable - and text with the HTML-special characters & < > ' " (plain and marked safe).
ValLeaves ==
  {Var("nn"), Var("None"), Var("f"), Var("False"), Var("True"), Var("z"), Var("es"), Str(6), Var("nope"), Var("hs.1"),
   Var("amp"), Var("h"), Var("sf"), Str(10), Var("hs"), Var("dn"), Var("dh"),
   Tpl(9), Tpl(10), Tpl(11), Tpl(12), Tpl(13), Tpl(14), Tpl(15), Tpl(16), Tpl(17), Tpl(18), Tpl(19), Tpl(20),
   Tpl(21), Tpl(22),
   \* nested strings and leaves that use a loaded library (TagArgs!Loaded)
   Tpl(23), Tpl(24), Tpl(25), Tpl(26), Tpl(28),
   Filt(Var("amp"), <<Fl("vfwrap")>>),
   \* a literal head whose value still depends on the context: literal|filter:variable
   Filt(Str(4), <<FlA("add", Var("it"))>>), Filt(Str(6), <<FlA("default", Var("amp")), Fl("upper")>>),
   Filt(Trans(1), <<FlA("add", Var("s"))>>),
   Filt(Var("nn"), <<FlA("default_if_none", Var("amp"))>>),
   Filt(Var("es"), <<FlA("default", Var("nn"))>>),
   Filt(Var("z"), <<FlA("default", Str(10))>>),
   Filt(Var("h"), <<Fl("upper")>>),
   Filt(Var("amp"), <<Fl("escape")>>),
   Filt(Var("hs"), <<Fl("last")>>)}
ValKeys ==
  {Var("nn"), Var("None"), Var("False"), Var("z"), Var("es"), Str(6), Var("hs.1"),
   Var("amp"), Var("h"), Var("sf"), Str(10), Tpl(9), Tpl(10), Tpl(11), Tpl(14), Tpl(21), Tpl(22),
   Tpl(23), Tpl(26),
   Filt(Var("h"), <<Fl("upper")>>), Filt(Var("hs"), <<Fl("last")>>)}
\* the core of it, for deeper / wider lists
\* (a key leaf is pushed like any other leaf: the key alphabets are subsets of the leaf alphabets)
CoreLeaves == {Var("nn"), Var("z"), Var("amp"), Tpl(9), Var("hs"), Var("dn"), Filt(Str(4), <<FlA("add", Var("it"))>>)}
CoreKeys   == {Var("nn"), Var("z"), Var("amp")}
ASSUME ValKeys \subseteq ValLeaves /\ CoreKeys \subseteq CoreLeaves
\* Containers by Python type (TagArgs!SeqKinds / MapKinds).  What a spread does is decided by the kind
\* of its operand - a mapping gives keywords / entries, any other iterable gives positionals / items -
\* so every spread (`...x` at top level, `*x` in a list literal, `**x` in a dict literal) sees every
\* type as its operand: tuple, range, a keys() view, an empty tuple; MappingProxyType, ChainMap,
\* UserDict, OrderedDict, an empty mapping, a mapping with non-str keys (** only); the same values
\* through a single-tag string; and every one of them also NOT spread (argument, keyword / aggregate
\* value, list item, dict value): then it is handed over as the object it is.
TypeLeaves ==
  {Var("tp"), Var("rg"), Var("ks"), Var("et"), Var("mp"), Var("cm"), Var("ud"), Var("od"), Var("em"), Var("mn"),
   Tpl(29), Tpl(30), Var("x"), Str(4)}
TypeKeys == {Str(4)}
\* the core of it, for argument lists with several arguments (a spread among other arguments)
TypeCoreLeaves == {Var("tp"), Var("ks"), Var("mp"), Var("cm"), Var("x")}
ASSUME TypeKeys \subseteq TypeLeaves /\ TypeCoreLeaves \subseteq TypeLeaves
ASSUME \A k \in SeqKinds \cup MapKinds : \E l \in TypeLeaves \cup SmallLeaves : \E c \in {Ctx, Ctx2} :
          l.t = "var" /\ l.n \in DOMAIN c /\ c[l.n].t = k
\* Stateful nested strings (TagArgs!StatefulTpl) beside leaves without state and a leaf that follows the loop
\* variable: every list is replayed alone AND as several tags with the same text in one template
\* (TagArgs!TogetherForms) - each copy must denote what the tag alone denotes.
StateLeaves == {Tpl(31), Tpl(32), Tpl(33), Tpl(34), Var("x"), Str(4), Tpl(28), Filt(Str(4), <<FlA("add", Var("it"))>>)}
StateKeys == {Tpl(31), Str(4)}
ASSUME StateKeys \subseteq StateLeaves
ASSUME \A l \in UNION {RichLeaves, ValLeaves, CoreLeaves, TypeLeaves, SmallLeaves} : l.t = "tpl" => l.id \notin StatefulTpl
\* "mixed": the small alphabet and the core together (random walks far beyond the BFS bounds)
Leaves == CASE Alpha = "rich" -> RichLeaves [] Alpha = "vals" -> ValLeaves [] Alpha = "core" -> CoreLeaves
            [] Alpha = "types" -> TypeLeaves [] Alpha = "tcore" -> TypeCoreLeaves
            [] Alpha = "state" -> StateLeaves
            [] Alpha = "mixed" -> SmallLeaves \cup CoreLeaves \cup {Var("tp"), Var("cm")}
            [] OTHER -> SmallLeaves
\* leaves allowed as a dictionary key (no filter argument: inside a dict literal the first
\* `:` ends the key - documented restriction)
SmallKeys == {Str(4), Filt(Str(4), <<Fl("upper")>>)}
RichKeys  == {Str(2), Str(4), Str(5), Str(6), Var("x"), Var("s"), Num("42"), Trans(1), Tpl(7),
              Filt(Str(4), <<Fl("upper")>>), Filt(Var("s"), <<Fl("upper"), Fl("lower")>>)}
KeyLeaves == CASE Alpha = "rich" -> RichKeys [] Alpha = "vals" -> ValKeys [] Alpha = "core" -> CoreKeys
               [] Alpha = "types" -> TypeKeys [] Alpha = "tcore" -> {}
               [] Alpha = "state" -> StateKeys
               [] Alpha = "mixed" -> CoreKeys
               [] OTHER -> SmallKeys
\* Keyword names are fixed per argument position (which name is used does not interact with
\* the value): the i-th argument, if a keyword, is named KwName[i]; if an aggregate, AggName[i].
KwName  == <<"a", "@c-d.e#f", "b_1", "data-x", "z9">>
AggName == <<<<"attrs", "class">>, <<"attrs", "@click.x">>, <<"g", "h:i">>, <<"attrs", "data-y">>, <<"g", "j">>>>
BadLeaves == {BadFilt(Var("x"), "...", "upper"), BadFilt(Var("xs"), "*", "first"), BadFilt(Str(1), "**", "upper")}

(* ------------------------------ helpers ------------------------------- *)
Max2(a, b) == IF a > b THEN a ELSE b
RECURSIVE Depth(_), MaxDepthOf(_, _)
MaxDepthOf(items, i) == IF i > Len(items) THEN 0 ELSE Max2(Depth(items[i]), MaxDepthOf(items, i + 1))
Depth(v) ==
  CASE v.t \in {"list", "dict"} -> 1 + MaxDepthOf(v.items, 1)
    [] v.t = "spread" -> Depth(v.v)
    [] v.t = "pair"   -> Max2(Depth(v.k), Depth(v.v))
    [] OTHER          -> 0
IsValue(v) == v.t \notin {"spread", "pair"}
BaseOf(v) == IF v.t = "filt" THEN v.b ELSE v
ListyLeaf(v) == \/ /\ BaseOf(v).t = "var" /\ BaseOf(v).n \in {"xs", "ys", "e0"}
                   /\ (v.t = "filt" => v = Filt(Var("xs"), <<FlA("slice", Str(9))>>))
                \/ v.t = "var" /\ v.n = "hs"
                \* a variable / single-tag string whose value is an iterable that is no mapping (any type)
                \/ v.t = "var" /\ v.n \in DOMAIN Ctx /\ Ctx[v.n].t \in SeqKinds
                \/ TplVar(v) /\ Ctx[SpreadBase(v).n].t \in SeqKinds
\* operand that may be spread into keyword arguments (every key a str) ...
KwDictyLeaf(v) == \/ v.t = "var" /\ v.n \in {"d", "d2", "dh"}
                  \* a variable whose value is a mapping (any type) with str keys only
                  \/ v.t = "var" /\ v.n \in DOMAIN Ctx /\ StrKeyed(v.n)
                  \/ v = Filt(Var("d2"), <<FlA("default", Var("d"))>>)
                  \/ TplVar(v) /\ StrKeyed(SpreadBase(v).n)
\* ... or into a dict literal (any hashable key: None, 0, "", text)
DictyLeaf(v) == \/ KwDictyLeaf(v)
                \/ v.t = "var" /\ v.n = "dn"
                \/ v.t = "var" /\ v.n \in DOMAIN Ctx /\ Ctx[v.n].t \in MapKinds
                \/ TplVar(v) /\ Ctx[SpreadBase(v).n].t \in MapKinds
ListOp(v) == v.t = "list" \/ ListyLeaf(v)
DictOp(v) == v.t = "dict" \/ DictyLeaf(v)
KwDictOp(v) == v.t = "dict" \/ KwDictyLeaf(v)
Top(n) == SubSeq(stk, Len(stk) - n + 1, Len(stk))
Below(n) == SubSeq(stk, 1, Len(stk) - n)
Count(s, P(_)) == Cardinality({i \in 1..Len(s) : P(s[i])})

\* keyword names a complete argument contributes (to keep top-level keys unique: a key given
\* twice, or by a spread and a keyword, is outside this property - see C11)
RECURSIVE LitKeys(_, _)
\* (the str keys it has in any of the contexts)
VarKeys(n) == UNION {{Ctxs[k][n].items[i].k.s : i \in {j \in 1..Len(Ctxs[k][n].items) : Ctxs[k][n].items[j].k.t = "str"}}
                     : k \in 1..Len(Ctxs)}
OperandKeys(v) ==
  CASE v.t = "var"  -> IF Ctx[v.n].t \in MapKinds THEN VarKeys(v.n) ELSE {}
    [] v.t = "filt" -> VarKeys("d") \cup VarKeys("d2")
    [] v.t = "dict" -> LitKeys(v.items, 1)
    [] TplVar(v)    -> IF Ctx[SpreadBase(v).n].t \in MapKinds THEN VarKeys(SpreadBase(v).n) ELSE {}
    [] OTHER        -> {}
LitKeys(items, i) ==
  IF i > Len(items) THEN {}
  ELSE (IF items[i].t = "spread" THEN OperandKeys(items[i].v) ELSE {StrTab[items[i].k.id].dq})
       \cup LitKeys(items, i + 1)
\* a dict literal spread at top level must have plain string keys (they become keyword names)
RECURSIVE PlainKeys(_, _)
PlainKeys(items, i) ==
  IF i > Len(items) THEN TRUE
  ELSE /\ IF items[i].t = "spread"
          THEN (IF items[i].v.t = "dict" THEN PlainKeys(items[i].v.items, 1) ELSE (DictyLeaf(items[i].v) => KwDictyLeaf(items[i].v)))
          ELSE items[i].t = "pair" /\ items[i].k \in {Str(4), Str(5)}
       /\ PlainKeys(items, i + 1)
ArgKeys(a) ==
  CASE a.t = "kw"     -> {a.key}
    [] a.t = "agg"    -> {a.pre}
    [] a.t = "spread" -> IF DictOp(a.v) THEN OperandKeys(a.v) ELSE {}
    [] OTHER          -> {}
UsedKeys == UNION {ArgKeys(args[i]) : i \in 1..Len(args)}
PlainUsed == UNION {ArgKeys(args[i]) : i \in {j \in 1..Len(args) : args[j].t # "agg"}}
KwSeen == \E i \in 1..Len(args) : args[i].t \in {"kw", "agg", "kwspread"} \/ (args[i].t = "spread" /\ DictOp(args[i].v))

(* ------------------------------ actions ------------------------------- *)
Init == stk = <<>> /\ args = <<>> /\ nl = 0 /\ nc = 0 /\ bad = FALSE

\* room for one more stack item: the remaining literals must be able to reduce the stack to one value
\* (a value pushed right after a possible dict key will merge with it into one entry)
KeyOnTop == Len(stk) >= 1 /\ nc < MaxCont /\ stk[Len(stk)] \in KeyLeaves
Room == /\ Len(args) < MaxArgs
        /\ Len(stk) + 1 <= 1 + (MaxCont - nc) * (MaxWidth - 1) + (IF KeyOnTop THEN 1 ELSE 0)
PushLeaf(l) ==
  /\ Room /\ nl < MaxLeaves
  /\ stk' = Append(stk, l) /\ nl' = nl + 1 /\ UNCHANGED <<args, nc, bad>>
PushBad(l) ==
  /\ AllowInvalid /\ ~bad /\ Room /\ nl < MaxLeaves
  /\ stk' = Append(stk, l) /\ nl' = nl + 1 /\ bad' = TRUE /\ UNCHANGED <<args, nc>>

\* spread markers; whether the token fits is decided where the item is consumed
Wrap(tok) ==
  /\ Len(stk) >= 1
  /\ LET v == stk[Len(stk)] IN
     /\ IsValue(v)
     /\ CASE tok = "*"  -> ListOp(v)
          [] tok = "**" -> DictOp(v) /\ v.t # "filt"      \* a filter argument's `:` ends a dict entry
          [] OTHER      -> AllowInvalid /\ (ListOp(v) \/ DictOp(v))
     /\ stk' = Append(Below(1), Spread(tok, v))
  /\ UNCHANGED <<args, nl, nc, bad>>

MkPair ==
  /\ Len(stk) >= 2
  /\ LET k == stk[Len(stk) - 1]  v == stk[Len(stk)] IN
     LET wrong == (IF k.t = "spread" THEN 1 ELSE 0) + (IF v.t = "spread" THEN 1 ELSE 0) IN
     /\ k.t = "spread" \/ k \in KeyLeaves
     /\ v.t # "pair" /\ k.t # "pair"
     /\ wrong <= 1 /\ (wrong = 1 => AllowInvalid /\ ~bad)
     /\ stk' = Append(Below(2), Pair(k, v))
     /\ bad' = (bad \/ wrong = 1)
  /\ UNCHANGED <<args, nl, nc>>

Mk(kind, n) ==
  /\ n <= Len(stk) /\ nc < MaxCont /\ Len(args) < MaxArgs
  /\ kind = "list" => n <= MaxListWidth
  /\ LET items == Top(n)
         fits(e) == IF kind = "list" THEN IsValue(e) \/ (e.t = "spread" /\ e.tok = "*")
                    ELSE e.t = "pair" \/ (e.t = "spread" /\ e.tok = "**")
         misfit(e) == e.t = "spread" /\ ~fits(e)
         wrong == Count(items, misfit) IN
     /\ \A i \in 1..n : fits(items[i]) \/ misfit(items[i])
     /\ wrong <= 1 /\ (wrong = 1 => AllowInvalid /\ ~bad)
     /\ 1 + MaxDepthOf(items, 1) <= MaxDepth
     /\ stk' = Append(Below(n), [t |-> kind, items |-> items])
     /\ bad' = (bad \/ wrong = 1)
  /\ nc' = nc + 1 /\ UNCHANGED <<args, nl>>

Single == Len(stk) = 1 /\ IsValue(stk[1]) /\ Len(args) < MaxArgs
Add(a) == args' = Append(args, a) /\ stk' = <<>> /\ UNCHANGED <<nl, nc>>
FinishPos == /\ Single /\ ~KwSeen /\ stk[1] # Var("only")
             /\ Add(Pos(stk[1])) /\ UNCHANGED bad
FinishKw == LET key == KwName[Len(args) + 1] IN
            /\ Single /\ key \notin UsedKeys
            /\ Add(Kw(key, stk[1])) /\ UNCHANGED bad
FinishAgg == LET pk == AggName[Len(args) + 1] IN
             /\ Single /\ pk[1] \notin PlainUsed
             /\ Add(Agg(pk[1], pk[2], stk[1])) /\ UNCHANGED bad
FinishSpread(tok) ==
  /\ Single
  /\ LET v == stk[1] IN
     /\ ListOp(v) \/ KwDictOp(v)
     /\ ListOp(v) => ~KwSeen
     /\ KwDictOp(v) => (v.t = "dict" => PlainKeys(v.items, 1)) /\ OperandKeys(v) \cap UsedKeys = {}
     /\ tok # "..." => AllowInvalid /\ ~bad
     /\ Add(Spread(tok, v)) /\ bad' = (bad \/ tok # "...")
FinishKwSpread ==
  LET key == KwName[Len(args) + 1] IN
  /\ AllowInvalid /\ ~bad /\ Single /\ key \notin UsedKeys
  /\ ListOp(stk[1]) \/ DictOp(stk[1])
  /\ Add(KwSpread(key, "...", stk[1])) /\ bad' = TRUE
AddFlag(f) == /\ stk = <<>> /\ Len(args) < MaxArgs
              /\ ~\E i \in 1..Len(args) : args[i] = Flag(f)
              /\ args' = Append(args, Flag(f)) /\ UNCHANGED <<stk, nl, nc, bad>>

Next ==
  \/ \E l \in Leaves : PushLeaf(l)
  \/ \E l \in BadLeaves : PushBad(l)
  \/ \E tok \in {"*", "**", "..."} : Wrap(tok)
  \/ MkPair
  \/ \E kind \in {"list", "dict"}, n \in 0..MaxWidth : Mk(kind, n)
  \/ FinishPos
  \/ FinishKw \/ FinishAgg \/ FinishKwSpread
  \/ \E tok \in {"...", "*", "**"} : FinishSpread(tok)
  \/ \E f \in FlagNames : AddFlag(f)
Spec == Init /\ [][Next]_vars

(* ------------------------------ properties ---------------------------- *)
Complete == stk = <<>> /\ Len(args) >= 1
\* the generator's bookkeeping of invalid constructs agrees with the Invalid predicate
GeneratorAgrees == Complete => (bad <=> Invalid(args))
\* all layouts of one argument list have the same significant skeleton
SkeletonInvariant ==
  Complete => \A i \in 1..NStyles : Skeleton(Text(args, Styles[i])) = Skeleton(Text(args, Canon))
\* the canonical serialisation is a layout of the same arguments
SerialIsLayout ==
  Complete => \A i \in 1..NStyles : Skeleton(Serial(args, Styles[i])) = Skeleton(Text(args, Canon))
\* a valid argument list never repeats a keyword and keeps positionals first
\* a valid argument list never names a keyword twice (the generator keeps keys unique) and
\* Denote is defined on it
\* an iteration of {% for it in its %} denotes what the context with the loop variable bound denotes
\* (the harness values the leaves in LoopCtx(c, i), the structure is DenoteIn(c, args))
LoopDenotes ==
  Complete /\ ~bad => \A k \in 1..Len(Ctxs) : \A i \in 1..Len(LoopCtxs[k]) :
                         DenoteIn(LoopCtxs[k][i], args) = DenoteIn(Ctxs[k], args)
WellFormed ==
  Complete /\ ~bad =>
    /\ Len(Denote(args).args) + Len(Denote(args).kwargs) >= 0
    /\ Len(DenoteIn(Ctx2, args).args) + Len(DenoteIn(Ctx2, args).kwargs) >= 0
    /\ \A i, j \in 1..Len(args) : i < j /\ args[i].t # "agg" /\ args[j].t # "agg" => ArgKeys(args[i]) \cap ArgKeys(args[j]) = {}

(* ------------------------------ export -------------------------------- *)
Out(x) == Serialize(ToJson(x) \o "\n", IOEnv.OUT,
                    [format |-> "TXT", charset |-> "UTF-8",
                     openOptions |-> <<"WRITE", "CREATE", "APPEND">>]).exitValue = 0
Export ==
  IF stk = <<>> /\ args = <<>>
  THEN Out([kind |-> "header", ctx |-> Ctx, styles |-> Styles, canon |-> Canon, from |-> StyleFrom, to |-> StyleTo,
            strtab |-> StrTab, tpltab |-> TplTab,
            ctxs |-> Ctxs, loopctxs |-> LoopCtxs, loopvar |-> LoopVar, loopover |-> LoopOver, loaded |-> Loaded,
            alpha |-> Alpha, stateful |-> StatefulTpl, together |-> TogetherForms])
  ELSE Complete /\ (AllowInvalid => bad) =>
       Out([kind |-> "case", args |-> args, invalid |-> bad,
            texts |-> [j \in 1..(StyleTo - StyleFrom + 1) |-> Text(args, Styles[StyleFrom + j - 1])],
            serial |-> Serial(args, Canon),
            lenient |-> [j \in 1..(StyleTo - StyleFrom + 1) |-> "tse" \in Outcomes(args, Styles[StyleFrom + j - 1]) /\ ~bad],
            slot |-> SlotApplies(args),
            expect |-> IF bad THEN NoValues ELSE Denote(args),
            \* per context: expects[k] is what the tag must hand over when rendered with Ctxs[k]
            expects |-> [k \in 1..Len(Ctxs) |-> IF bad THEN NoValues ELSE DenoteIn(Ctxs[k], args)],
            devs |-> Devs(args)])
\* cheap variant used to size a configuration: one short line per case
ExportCount == Complete /\ (AllowInvalid => bad) => Out([n |-> Len(args), l |-> nl, c |-> nc])
=============================================================================
