SPECIFICATION IndSpec
CONSTANTS
  Pid = {"p1", "p2"}
  Rid = {"r1", "r2"}
INVARIANT IndInv
INVARIANT NoKeyError
INVARIANT OpenAlive
INVARIANT InjectSound
INVARIANT Quiescent
CHECK_DEADLOCK FALSE
