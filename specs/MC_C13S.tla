------------------------------ MODULE MC_C13S ------------------------------
(***************************************************************************)
(* Bounded instance of SlotEscape: every origin x every chain of <= MaxHops *)
(* hops x content representative.  A state is a case; a step appends a hop  *)
(* and advances the implementation-shaped wrapper machine.  TLC checks that *)
(* the wrapper machine never leaves the admitted set (in particular never   *)
(* escapes twice) and exports every case with the admitted output texts.    *)
(***************************************************************************)
EXTENDS SlotEscape, TLC, Json, IOUtils

CONSTANT MaxHops

\* well-formed HTML fragments when left raw (the HTML post-processing is not what is fuzzed here),
\* with quotes, angle brackets, ampersands, a pre-escaped reference and non-ASCII text
Contents == {"<b>\"x\" & 'y'</b>", "a &amp; <i>é</i> &lt;", "<p>1</p><p id=\"p\">2 &gt; 1</p>"}
FirstHops == {Hop(v, f) : v \in {"render", "dynamic"}, f \in BOOLEAN}
LaterHops == FirstHops \cup {Hop("fill", FALSE)}

VARIABLES o, content, hops, b
mcVars == <<o, content, hops, b>>

MCInit == /\ o \in Origins /\ content \in Contents /\ hops = <<>> /\ b = BInit(o)
MCNext == /\ Len(hops) < MaxHops
          /\ \E h \in (IF hops = <<>> THEN FirstHops ELSE LaterHops) :
               WellFormed(Append(hops, h)) /\ hops' = Append(hops, h) /\ b' = BHop(b, h)
          /\ UNCHANGED <<o, content>>
MCSpec == MCInit /\ [][MCNext]_mcVars

\* the stepwise machine and the closed form agree
StepwiseIsRun == b = BRun(BInit(o), hops)
\* the wrapper machine refines the abstract statement
Refines == hops # <<>> => b.count \in Admitted(o, hops)
NeverTwice == b.count <= 1
\* escaping can only start at a hop whose flag is True
CountMonotone == [][b'.count >= b.count /\ (b'.count > b.count => hops'[Len(hops')].flag)]_mcVars
\* once and twice escaped texts are distinguishable from each other and from the raw text
ASSUME TextsDistinct == \A c \in Contents : Texts(0, c) \cap Texts(1, c) = {} /\ Texts(1, c) \cap Texts(2, c) = {}
                                            /\ Texts(0, c) \cap Texts(2, c) = {}
ASSUME EscapedTextIsInert == \A c \in Contents : \A t \in Texts(1, c) : ~HasAny(t, {"<", ">"}) /\ Decode(t) = c

SetToSeq(s) == LET RECURSIVE R(_)
                   R(x) == IF x = {} THEN <<>> ELSE LET e == CHOOSE e \in x : TRUE IN <<e>> \o R(x \ {e})
               IN R(s)
Export ==
  \/ hops = <<>>
  \/ Serialize(ToJson([origin |-> o, content |-> content, hops |-> hops,
                       admitted |-> SetToSeq(Admitted(o, hops)),
                       texts |-> SetToSeq(AdmittedTexts(o, hops, content)),
                       once |-> SetToSeq(Texts(1, content)), twice |-> SetToSeq(Texts(2, content)),
                       bcount |-> b.count]) \o "\n",
               IOEnv.OUT, [format |-> "TXT", charset |-> "UTF-8",
                           openOptions |-> <<"WRITE", "CREATE", "APPEND">>]).exitValue = 0
=============================================================================
