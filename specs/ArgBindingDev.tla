---------------------------- MODULE ArgBindingDev ----------------------------
(***************************************************************************)
(* Named deviations of django-components' validate_params()/NodeMeta from  *)
(* ArgBinding (C11), as *what the code is known to do on which shape of    *)
(* case*.  They never widen what the check accepts: a case whose observed  *)
(* outcome is not admissible is reported under the key of the deviation    *)
(* set that predicts exactly the observed outcome (KNOWN_FINDINGS.txt      *)
(* decides whether that key is a known finding); an outcome predicted by   *)
(* no deviation is a plain violation.  Delete a deviation when it is fixed. *)
(*                                                                         *)
(* posonly-default-omitted   a positional-only parameter with a default    *)
(*      whose argument is omitted: the default is passed again *by keyword* *)
(*      (name=default), so it lands in **kwargs, or raises TypeError when   *)
(*      there is no **kwargs.                                               *)
(* posonly-name-as-keyword   the name of a positional-only parameter that   *)
(*      was filled positionally is used as a keyword (legal: it belongs to  *)
(*      **kwargs): rejected with "got multiple values".                     *)
(* special-key-repeated      a key that is not an identifier (data-x,       *)
(*      class) written twice: the later value silently overwrites the       *)
(*      earlier one instead of TypeError.                                   *)
(* keyword-value-named-like-flag   `key=required` on a tag whose            *)
(*      allowed_flags contain `required`: the whole keyword argument is     *)
(*      taken for the flag and dropped (the flag is set instead).           *)
(***************************************************************************)
EXTENDS ArgBinding

D1 == "posonly-default-omitted"
D2 == "posonly-name-as-keyword"
D3 == "special-key-repeated"
D4 == "keyword-value-named-like-flag"
DevOrder == <<D1, D2, D3, D4>>
\* smaller sets first: a case is reported under the smallest set that predicts what was observed
DevSets == << {D1}, {D2}, {D3}, {D4},
              {D1, D3}, {D2, D3}, {D1, D2}, {D1, D4}, {D2, D4}, {D3, D4},
              {D1, D2, D3}, {D1, D2, D4}, {D1, D3, D4}, {D2, D3, D4}, {D1, D2, D3, D4} >>
RECURSIVE JoinNames(_, _)
JoinNames(S, i) ==
  IF i > Len(DevOrder) THEN ""
  ELSE LET rest == JoinNames(S, i + 1) IN
       IF DevOrder[i] \notin S THEN rest
       ELSE IF rest = "" THEN DevOrder[i] ELSE DevOrder[i] \o "+" \o rest
DevName(S) == JoinNames(S, 1)

DropRepeatedSpecial(flat) ==
  SelectSeq(flat, LAMBDA e : e.k \notin SpecialKeys
                             \/ ~\E j \in DOMAIN flat : flat[j].k = e.k /\ flat[j].v > e.v)

\* what the code answers when exactly the deviations in S are present (c: the call, flat0 = Flat(c))
ImplOutcome(s, c, flat0, S) ==
  LET c1     == IF D4 \in S THEN SelectSeq(c, LAMBDA it : ~it.fv) ELSE c
      flat1  == IF D4 \in S THEN SelectSeq(flat0, LAMBDA e : ~e.fv) ELSE flat0
      flat   == IF D3 \in S THEN DropRepeatedSpecial(flat1) ELSE flat1
      base   == BindDecl(s, flat)
      npos   == Len(SelectSeq(flat, LAMBDA e : e.k = ""))
      keys   == {flat[j].k : j \in DOMAIN flat} \ {""}
      reused == \E i \in DOMAIN s : s[i].k = "po" /\ i <= npos /\ Names[i] \in keys
      idx    == [i \in 1..Len(s) |-> i]
      again  == SelectSeq(idx, LAMBDA i : s[i].k = "po" /\ s[i].d /\ i > npos /\ Names[i] \notin keys)
  IN  IF Run(s, c1).strict THEN TypeErr      \* positional after keyword: the code does reject it
      ELSE IF base.o # "ok" THEN base
      ELSE IF D2 \in S /\ reused THEN TypeErr
      ELSE IF D1 \in S /\ Len(again) > 0
           THEN IF HasVk(s)
                THEN Ok(base.slot, base.star,
                        base.kw \o [j \in DOMAIN again |-> <<Names[again[j]], Def(again[j])>>])
                ELSE TypeErr
      ELSE base

\* deviations whose shape is present in the case at all (cheap over-approximation)
Applicable(s, flat) ==
  LET npos == Len(SelectSeq(flat, LAMBDA e : e.k = ""))
      keys == {flat[j].k : j \in DOMAIN flat} \ {""}
  IN  (IF \E i \in DOMAIN s : s[i].k = "po" /\ s[i].d /\ i > npos THEN {D1} ELSE {})
      \cup (IF \E i \in DOMAIN s : s[i].k = "po" /\ i <= npos /\ Names[i] \in keys THEN {D2} ELSE {})
      \cup (IF \E i, j \in DOMAIN flat : i < j /\ flat[i].k = flat[j].k /\ flat[i].k \in SpecialKeys
            THEN {D3} ELSE {})
      \cup (IF \E i \in DOMAIN flat : flat[i].fv THEN {D4} ELSE {})

\* the deviation sets whose prediction is not admissible anyway, with the finding key
\* (names of the deviations + the kind of wrong answer)
Deviations(s, c, st) ==
  LET flat == Flat(c)
      app  == Applicable(s, flat) IN
  IF app = {} THEN <<>>
  ELSE LET adm  == Admissible(s, c, st)
           want == Runtime(s, st)
           Kind(out) == IF out.o = "type" THEN "TypeError"
                        ELSE IF want.o = "ok" THEN "wrong-bindings" ELSE "accepted"
           Pred(n) == ImplOutcome(s, c, flat, DevSets[n])
           cand == SelectSeq([n \in 1..Len(DevSets) |-> n], LAMBDA n : DevSets[n] \subseteq app)
           \* keep a set only if no earlier (smaller) one predicts the same answer
           live == SelectSeq(cand,
                             LAMBDA n : /\ ~\E a \in adm : SameOutcome(a, Pred(n))
                                        /\ ~\E m \in 1..(n - 1) :
                                              DevSets[m] \subseteq app /\ SameOutcome(Pred(m), Pred(n)))
       IN  [j \in DOMAIN live |-> [key |-> DevName(DevSets[live[j]]) \o ":" \o Kind(Pred(live[j])),
                                   out |-> Pred(live[j])]]
=============================================================================
