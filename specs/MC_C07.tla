------------------------------- MODULE MC_C07 -------------------------------
(* Bounded instance of DjcShared: exports every complete schedule (thread  *)
(* id per step) so the cooperative scheduler can replay it on the code.     *)
EXTENDS DjcShared, TLC, Json, IOUtils
CONSTANTS W1, W2, W3
MCThreads == IF W3 = "none" THEN {1, 2} ELSE {1, 2, 3}
MCWorkloads == [t \in MCThreads |-> IF t = 1 THEN W1 ELSE IF t = 2 THEN W2 ELSE W3]
Export ==
  Finished =>
    Serialize(ToJson([schedule |-> hist, workloads |-> [t \in 1..Cardinality(MCThreads) |-> MCWorkloads[t]]]) \o "\n",
              IOEnv.OUT, [format |-> "TXT", charset |-> "UTF-8",
                          openOptions |-> <<"WRITE", "CREATE", "APPEND">>]).exitValue = 0
=============================================================================
