----------------------------- MODULE LexerAtoms -----------------------------
(***************************************************************************)
(* The catalogue of concrete segments from which MC_C09 / MC_C09H build    *)
(* every source of up to MaxSegs segments.  Each atom is one segment of    *)
(* Lexer.tla; the comment shows its text.                                  *)
(*                                                                         *)
(* Atoms 26.. are the NEAR MISSES of the verbatim state machine: block     *)
(* tags whose name has "verbatim" / "endverbatim" as a proper prefix or    *)
(* suffix, "verbatim" followed by something that is not a space (tab,      *)
(* newline, a quote), with and without quoted arguments; an end tag where  *)
(* no block is open; end tags that are not EXACTLY "end" + the contents of *)
(* the opening tag inside a block.  Which of them open / close a verbatim  *)
(* block is decided by OpensVerbatim / the verbatim segment of Lexer.tla   *)
(* (Django: contents[:9] in ("verbatim", "verbatim ") opens, exactly       *)
(* "end" + those contents closes), never by the atom list: SegOK admits a  *)
(* plain block tag only if it does NOT open a block, BodySegOK a body tag  *)
(* only if it does NOT close it (GeneratorWellFormed is checked by TLC).   *)
(***************************************************************************)
EXTENDS Lexer

Txt(c) == [k |-> "text", c |-> c]
Plain(c) == [p |-> "plain", c |-> c]
Ws(c) == [p |-> "ws", c |-> c]
Str(q, c) == [p |-> "str", q |-> q, c |-> c]
OpenQ(q, c) == [p |-> "openq", q |-> q, c |-> c]
Tag(o, lw, parts, rw) == [k |-> "tag", o |-> o, lw |-> lw, parts |-> parts, rw |-> rw]
TailSeg(o, parts) == [k |-> "tail", o |-> o, parts |-> parts]
NoTag == Tag(PC, <<>>, <<>>, <<>>)
Verb(open, body, close) == [k |-> "verbatim", open |-> open, body |-> body, closed |-> TRUE, close |-> close]
VerbOpen(open, body) == [k |-> "verbatim", open |-> open, body |-> body, closed |-> FALSE, close |-> NoTag]

ca == 97  cb == 98  cc == 99  cd == 100 ci == 105 ck == 107 cl == 108 cm == 109 cn == 110
cq == 113 cs == 115 ct == 116 cv == 118 cw == 119 cx == 120 cy == 121 cz == 122
EQ == 61  BAR == 124  COLON == 58  FIVE == 53
DEFAULT == <<100, 101, 102, 97, 117, 108, 116>>
S1 == <<SP>>

VarV == Tag(LB, S1, <<Plain(<<cv>>)>>, S1)                               \* {{ v }}
CmtC == Tag(HS, S1, <<Plain(<<cc>>)>>, S1)                               \* {# c #}
BlkCS == Tag(PC, S1, <<Plain(<<cc>>), Ws(S1), Str(DQ, <<cs>>)>>, S1)      \* {% c "s" %}
VbOpen == Tag(PC, S1, <<Plain(VERBATIM)>>, S1)                           \* {% verbatim %}
VbClose == Tag(PC, S1, <<Plain(ENDW \o VERBATIM)>>, S1)                  \* {% endverbatim %}
VbOpenN == Tag(PC, S1, <<Plain(VERBATIM), Ws(S1), Plain(<<cn>>)>>, S1)    \* {% verbatim n %}
VbCloseN == Tag(PC, S1, <<Plain(ENDW \o VERBATIM), Ws(S1), Plain(<<cn>>)>>, S1)
VbOpenQ == Tag(PC, S1, <<Plain(VERBATIM), Ws(S1), Str(DQ, <<cq>>)>>, S1)  \* {% verbatim "q" %}
VbCloseQ == Tag(PC, S1, <<Plain(ENDW \o VERBATIM), Ws(S1), Str(DQ, <<cq>>)>>, S1)

\* near misses of the verbatim state machine
USC == 95  cj == 106  S2 == <<SP, SP>>
ENDVB == ENDW \o VERBATIM
NmJsQ == Tag(PC, S1, <<Plain(VERBATIM \o <<USC, cj, cs>>), Ws(S1), Str(DQ, <<cq>>)>>, S1)   \* {% verbatim_js "q" %}
NmX == Tag(PC, S1, <<Plain(VERBATIM \o <<cx>>)>>, S1)                                       \* {% verbatimx %}
NmTabQ == Tag(PC, S1, <<Plain(VERBATIM), Ws(<<TAB>>), Str(DQ, <<cq>>)>>, S1)                 \* {% verbatim\t"q" %}
NmNlN == Tag(PC, S1, <<Plain(VERBATIM), Ws(<<NL>>), Plain(<<cn>>)>>, S1)                     \* {% verbatim\nn %}
NmGlueQ == Tag(PC, S1, <<Plain(VERBATIM), Str(SQ, <<cq>>)>>, S1)                             \* {% verbatim'q' %}
NmPreQ == Tag(PC, S1, <<Plain(<<cx>> \o VERBATIM), Ws(S1), Str(DQ, <<cq>>)>>, S1)           \* {% xverbatim "q" %}
NmEndXQ == Tag(PC, S1, <<Plain(ENDVB \o <<cx>>), Ws(S1), Str(DQ, <<cq>>)>>, S1)             \* {% endverbatimx "q" %}
NmEndX == Tag(PC, S1, <<Plain(ENDVB \o <<cx>>)>>, S1)                                       \* {% endverbatimx %}
NmEndQQ == Tag(PC, S1, <<Plain(ENDVB), Ws(S1), Str(DQ, <<cq, cq>>)>>, S1)                    \* {% endverbatim "qq" %}
VbOpen2Q == Tag(PC, S1, <<Plain(VERBATIM), Ws(S2), Str(DQ, <<cq>>)>>, S1)                    \* {% verbatim  "q" %}
VbClose2Q == Tag(PC, S1, <<Plain(ENDVB), Ws(S2), Str(DQ, <<cq>>)>>, S1)                      \* {% endverbatim  "q" %}

Atoms == <<
  Txt(<<ca, cb>>),                                                                    \*  1  ab
  Txt(<<cx, NL, cy>>),                                                                \*  2  x\ny
  Txt(<<DQ, PC, RB, SQ, LB, cx>>),                                                    \*  3  "%}'{x
  VarV,                                                                               \*  4  {{ v }}
  Tag(LB, <<>>, <<Plain(<<cv, BAR>> \o DEFAULT \o <<COLON>>), Str(DQ, <<cq>>)>>, <<NL>>),  \*  5  {{v|default:"q"\n}}
  CmtC,                                                                               \*  6  {# c #}
  Tag(HS, <<NL>>, <<Plain(<<cc>>), Ws(S1), Str(SQ, <<cd>>)>>, <<>>),                  \*  7  {#\nc 'd'#}
  Tag(PC, S1, <<Plain(<<cx>>), Ws(S1), Plain(<<cy>>)>>, S1),                          \*  8  {% x y %}
  Tag(PC, <<NL, SP>>, <<Plain(<<cx>>), Ws(<<NL, SP>>), Plain(<<cy, EQ, FIVE, PC, cz>>)>>, <<NL>>),
                                                                                      \*  9  {%\n x\n y=5%z\n%}
  BlkCS,                                                                              \* 10  {% c "s" %}
  Tag(PC, S1, <<Plain(<<cc>>), Ws(S1), Str(SQ, <<ca, PC, RB, cb>>), Ws(S1), Plain(<<ck, EQ>>),
                Str(DQ, <<RB, RB>>)>>, S1),                                           \* 11  {% c 'a%}b' k="}}" %}
  Tag(PC, <<NL, SP>>, <<Plain(<<cc>>), Ws(S1), Str(DQ, <<cl, NL, cm, BS, DQ, cn, BS, BS>>)>>, <<SP, NL>>),
                                                                                      \* 12  {%\n c "l\nm\"n\\" \n%}
  Tag(PC, S1, <<Plain(<<cc>>), Ws(S1), Str(SQ, <<ci, ct, DQ, cs>>), Ws(S1), Str(DQ, <<PC, RB>>)>>, <<>>),
                                                                                      \* 13  {% c 'it"s' "%}"%}
  Tag(PC, S1, <<Plain(<<cc>>), Ws(<<NL>>), Str(DQ, <<cs>>)>>, S1),                    \* 14  {% c\n"s" %}
  Tag(PC, S1, <<Plain(<<cc>>), Ws(S1), Str(DQ, <<cs>>), Ws(S1), Plain(<<cw, EQ, FIVE, PC, cx>>)>>, S1),
                                                                                      \* 15  {% c "s" w=5%x %}
  Tag(PC, <<>>, <<Plain(<<cc>>), Ws(S1), Plain(<<FIVE, PC, cx>>), Ws(S1), Str(DQ, <<cs>>)>>, <<>>),
                                                                                      \* 16  {%c 5%x "s"%}
  Verb(VbOpen, <<VarV, Txt(<<ca>>), BlkCS>>, VbClose),           \* 17  {% verbatim %}{{ v }}a{% c "s" %}{% endverbatim %}
  Verb(VbOpenN, <<VbClose, Txt(<<NL>>), CmtC>>, VbCloseN),       \* 18  {% verbatim n %}{% endverbatim %}\n{# c #}{% endverbatim n %}
  Verb(VbOpenQ, <<VarV>>, VbCloseQ),                             \* 19  {% verbatim "q" %}{{ v }}{% endverbatim "q" %}
  TailSeg(PC, <<Ws(S1), Plain(<<cx>>), Ws(S1), Plain(<<cy>>)>>),                      \* 20  {% x y        (tail)
  TailSeg(HS, <<Ws(S1), Plain(<<cc>>)>>),                                             \* 21  {# c          (tail)
  TailSeg(PC, <<Ws(S1), Plain(<<cx>>), Ws(S1), OpenQ(DQ, <<cs, NL, ct>>)>>),          \* 22  {% x "s\nt    (tail)
  TailSeg(PC, <<Ws(S1), Plain(<<cx>>), Ws(S1), Str(DQ, <<PC, RB>>), Ws(S1)>>),        \* 23  {% x "%}"_    (tail, zone)
  VerbOpen(VbOpen, <<VarV, BlkCS>>),                                                  \* 24  {% verbatim %}{{ v }}{% c "s" %}  (tail)
  Tag(PC, S1, <<Plain(<<cx>>), Ws(S1), OpenQ(DQ, <<ca, cb, cc>>)>>, S1),              \* 25  {% x "abc %}  (zone)
  NmJsQ,                                                                              \* 26  {% verbatim_js "q" %}
  NmX,                                                                                \* 27  {% verbatimx %}
  NmTabQ,                                                                             \* 28  {% verbatim\t"q" %}
  NmNlN,                                                                              \* 29  {% verbatim\nn %}
  NmGlueQ,                                                                            \* 30  {% verbatim'q' %}
  NmPreQ,                                                                             \* 31  {% xverbatim "q" %}
  VbCloseQ,                                                                           \* 32  {% endverbatim "q" %}   (no block open)
  Verb(VbOpenQ, <<NmEndXQ, NmEndQQ, VbClose2Q, VbClose, NmJsQ, VarV>>, VbCloseQ),
     \* 33  {% verbatim "q" %}{% endverbatimx "q" %}{% endverbatim "qq" %}{% endverbatim  "q" %}{% endverbatim %}{% verbatim_js "q" %}{{ v }}{% endverbatim "q" %}
  Verb(VbOpen, <<VbCloseQ, NmEndX, NmJsQ, VarV>>, VbClose),
     \* 34  {% verbatim %}{% endverbatim "q" %}{% endverbatimx %}{% verbatim_js "q" %}{{ v }}{% endverbatim %}
  Verb(VbOpen2Q, <<VbCloseQ, VarV>>, VbClose2Q)
     \* 35  {% verbatim  "q" %}{% endverbatim "q" %}{{ v }}{% endverbatim  "q" %}
>>

NAtoms == Len(Atoms)
IsLast(a) == Atoms[a].k = "tail" \/ (Atoms[a].k = "verbatim" /\ ~Atoms[a].closed)
Src(ids) == [i \in 1..Len(ids) |-> Atoms[ids[i]]]
=============================================================================
