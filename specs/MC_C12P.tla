------------------------------- MODULE MC_C12P ------------------------------
(***************************************************************************)
(* Input space of C12, part (v): pumped inputs  pre . u^k . suf  over a     *)
(* syntax alphabet of TagArgs (AdversarialInputs.tla, family 1).  TLC's BFS  *)
(* builds every (pre, u, suf) with  Len(pre) + Len(u) + Len(suf) <= MaxTotal,*)
(* Len(u) \in 1..MaxUnit, Len(suf) <= MaxSuf, by Append actions in the order *)
(* pre, u, suf, and then picks k \in Ks; the cases are the states with k > 0.*)
(* The harness reads them from TLC's state dump, builds the text and feeds   *)
(* it to the real parsers under the CPU budget CpuBudgetMs(characters).      *)
(* Admissible outcomes: ParseOutcomes, within the budget.                    *)
(***************************************************************************)
EXTENDS TagArgs, AdversarialInputs

CONSTANTS MaxTotal, MaxUnit, MaxSuf, Ks, Which
VARIABLES pre, u, suf, k
vars == <<pre, u, suf, k>>

Alphabet == IF Which = "tag" THEN TagAlphabet ELSE TplAlphabet
Total == Len(pre) + Len(u) + Len(suf)

Init == pre = <<>> /\ u = <<>> /\ suf = <<>> /\ k = 0
AppendPre(c) == k = 0 /\ u = <<>> /\ suf = <<>> /\ Total < MaxTotal - 1     \* leave room for the unit
                /\ pre' = pre \o <<c>> /\ UNCHANGED <<u, suf, k>>
AppendUnit(c) == k = 0 /\ suf = <<>> /\ Len(u) < MaxUnit /\ Total < MaxTotal
                 /\ u' = u \o <<c>> /\ UNCHANGED <<pre, suf, k>>
AppendSuf(c) == k = 0 /\ u # <<>> /\ Len(suf) < MaxSuf /\ Total < MaxTotal
                /\ suf' = suf \o <<c>> /\ UNCHANGED <<pre, u, k>>
Pick(n) == k = 0 /\ u # <<>> /\ k' = n /\ UNCHANGED <<pre, u, suf>>
Next == \/ \E c \in Alphabet : AppendPre(c) \/ AppendUnit(c) \/ AppendSuf(c)
        \/ \E n \in Ks : Pick(n)
Spec == Init /\ [][Next]_vars

InAlphabet(s) == \A i \in 1..Len(s) : s[i] \in Alphabet
\* the pumped text is what it is meant to be: the context, k copies of the unit, the tail
Shape ==
  /\ InAlphabet(pre) /\ InAlphabet(u) /\ InAlphabet(suf) /\ Total <= MaxTotal
  /\ k > 0 => LET t == PumpText(pre, u, k, suf) IN
              /\ Len(t) = Len(pre) + k * Len(u) + Len(suf)
              /\ SubSeq(t, 1, Len(pre)) = pre
              /\ SubSeq(t, Len(t) - Len(suf) + 1, Len(t)) = suf
              /\ \A i \in (Len(pre) + 1)..(Len(pre) + (k - 1) * Len(u)) : t[i] = t[i + Len(u)]
              /\ CpuBudgetMs(Chars(t)) >= BudgetBaseMs
=============================================================================
