------------------------------ MODULE Trace_X06 ------------------------------
(***************************************************************************)
(* Trace validation (code -> spec) for template source resolution.          *)
(* IOEnv.IN names an ndjson file; every line is one recorded history on a   *)
(* real chain of component classes (k: the chain as in TemplateSource):     *)
(* events render(c, sel) with the tag the real render displayed ("error"    *)
(* when it raised; a class that could not be created "renders" error) and   *)
(* clear (the template cache was cleared).  Every event is explained by the *)
(* TemplateSource action of the same name; the displayed tag must be one of *)
(* the admitted outcomes.  MaxSize is the template_cache_size of the run.   *)
(* A failing event prints a REJECT line (trace, event, failing clauses) and *)
(* validation continues with the next event (the expected outcome does not  *)
(* depend on the history).  Verdicts are total: every trace ends with an    *)
(* ACCEPT line (no failing event) or a DONE line (number of failing events).*)
(***************************************************************************)
EXTENDS TemplateSource, Json, IOUtils

Traces == ndJsonDeserialize(IOEnv.IN)

VARIABLES tid, l, phase, nfail
trVars == <<order, val, ret, made, got, req, cls, kase, hist, shown, keytab, tid, l, phase, nfail>>

Events == Traces[tid].events
Ev == Events[l]

TrInit == TSInit(Traces[1].k) /\ tid = 1 /\ l = 1 /\ phase = "step" /\ nfail = 0

NextTrace == /\ tid' = tid + 1 /\ l' = 1 /\ phase' = "step" /\ nfail' = 0
             /\ order' = <<>> /\ val' = <<>> /\ ret' = None /\ made' = <<>> /\ got' = 0 /\ req' = 0 /\ cls' = 0
             /\ kase' = IF tid < Len(Traces) THEN Traces[tid + 1].k ELSE kase
             /\ hist' = <<>> /\ shown' = "-" /\ keytab' = <<>>

SpecAction(e) ==
  IF e.op = "clear" THEN ClearTemplates
  ELSE LET O == Outcome(kase, e.c, e.sel) IN
       RenderAs(e.c, e.sel, IF e.obs \in O THEN e.obs ELSE CHOOSE x \in O : TRUE)

Step == /\ tid <= Len(Traces) /\ phase = "step" /\ l <= Len(Events)
        /\ SpecAction(Ev)
        /\ phase' = "cmp" /\ UNCHANGED <<tid, l, nfail>>

Failing(e) ==
  IF e.op = "clear" THEN {} ELSE
  LET exp == hist[Len(hist)].exp IN
  {c \in {"refusal_expected", "render_expected", "wrong_source", "spec_leak"} :
     CASE c = "refusal_expected" -> exp = {"error"} /\ e.obs # "error"
       [] c = "render_expected"  -> "error" \notin exp /\ e.obs = "error"
       [] c = "wrong_source"     -> "error" \notin exp /\ e.obs # "error" /\ e.obs \notin exp
       [] c = "spec_leak"        -> ~NoLeak}

Cmp == /\ tid <= Len(Traces) /\ phase = "cmp"
       /\ l' = l + 1 /\ phase' = "step"
       /\ UNCHANGED <<order, val, ret, made, got, req, cls, kase, hist, shown, keytab, tid>>
       /\ IF Failing(Ev) = {}
          THEN UNCHANGED nfail
          ELSE /\ PrintT(<<"REJECT", Traces[tid].id, l, Failing(Ev)>>)
               /\ nfail' = nfail + 1

Done == /\ tid <= Len(Traces) /\ phase = "step" /\ l > Len(Events)
        /\ IF nfail = 0 THEN PrintT(<<"ACCEPT", Traces[tid].id>>)
                        ELSE PrintT(<<"DONE", Traces[tid].id, nfail>>)
        /\ NextTrace

TrNext == Step \/ Cmp \/ Done
TrSpec == TrInit /\ [][TrNext]_trVars
=============================================================================
