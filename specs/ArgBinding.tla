----------------------------- MODULE ArgBinding -----------------------------
(***************************************************************************)
(* C11 - how Python binds the arguments of a call to the parameters of a   *)
(* function, written as a state machine over the argument sequence.        *)
(*                                                                         *)
(* A django-components tag `{% probe 1 a=2 ...[3,4] ...d data-x=5 %}` must *)
(* accept its arguments exactly when the call                              *)
(*        render(node, context, 1, a=2, *[3,4], **d, **{"data-x": 5})      *)
(* succeeds in Python, and then bind the same values to the same           *)
(* parameters, defaults included.  This module says what Python does       *)
(* (Language Reference 6.3.4 "Calls" and 8.7 "Function definitions"); it   *)
(* knows nothing about how django-components validates.                    *)
(*                                                                         *)
(* A *signature* is the sequence of parameters declared after              *)
(* `self, context`.  The parameter at index i is called Names[i]; its kind *)
(* is po (positional-only), pk (positional-or-keyword), va = *args,        *)
(* ko (keyword-only) or vk = **kwargs; d says whether it has a default     *)
(* (the default of parameter i is the value Def(i)).                       *)
(*                                                                         *)
(* A *call* is a sequence of items: P (one positional argument),           *)
(* K (keyword argument k=..), L (spread of a list with n elements),        *)
(* D (spread of a dict with the keys ks).  The j-th value that the call    *)
(* supplies, counted left to right after spreading, is the integer j, so a *)
(* case is fully described by its shape.  A K item may carry fv = TRUE:    *)
(* its value is written as a template variable whose name is also one of   *)
(* the tag's flags (`key=required` on a tag with allowed_flags=[required]);*)
(* it is an ordinary keyword argument and binds like any other.            *)
(*                                                                         *)
(* The machine:  Declare(p)* ; Pass(item)* .  After every Pass the binder  *)
(* state b holds the slots filled so far; Outcome(sig, b) is what Python   *)
(* answers if the call ends here: Ok(bindings), TypeError or SyntaxError.  *)
(* BindDecl is the same relation written declaratively (all positional     *)
(* arguments first, then the keywords, then defaults); TLC checks that the *)
(* machine and the declarative definition agree on every reachable state.  *)
(***************************************************************************)
EXTENDS Naturals, Sequences, FiniteSets

Names   == <<"a", "b", "c", "d", "e", "f", "g", "h">>
VaName  == "args"
VkName  == "kwargs"
\* keys that cannot be written as a Python keyword argument (not an identifier / reserved word)
SpecialKeys == {"data-x", "class"}
Def(i)  == 100 + i

Kinds      == {"po", "pk", "va", "ko", "vk"}
Positional == {"po", "pk"}
Named      == {"po", "pk", "ko"}
Rank(k) == CASE k = "po" -> 1 [] k = "pk" -> 2 [] k = "va" -> 3 [] k = "ko" -> 4 [] k = "vk" -> 5

Param(k, d) == [k |-> k, d |-> d]

(* ---- signatures that Python's grammar allows --------------------------- *)
WellFormed(sig) ==
  /\ Len(sig) <= Len(Names)
  /\ \A i \in DOMAIN sig : sig[i].k \in Kinds /\ sig[i].d \in BOOLEAN
  /\ \A i, j \in DOMAIN sig : i < j => Rank(sig[i].k) <= Rank(sig[j].k)
  /\ Cardinality({i \in DOMAIN sig : sig[i].k = "va"}) <= 1
  /\ Cardinality({i \in DOMAIN sig : sig[i].k = "vk"}) <= 1
  /\ \A i \in DOMAIN sig : sig[i].k \in {"va", "vk"} => ~sig[i].d
  \* "non-default argument follows default argument" (positional parameters only)
  /\ \A i, j \in DOMAIN sig :
        i < j /\ sig[i].k \in Positional /\ sig[j].k \in Positional /\ sig[i].d => sig[j].d

NPos(sig)  == Cardinality({i \in DOMAIN sig : sig[i].k \in Positional})   \* they are the indices 1..NPos
HasVa(sig) == \E i \in DOMAIN sig : sig[i].k = "va"
HasVk(sig) == \E i \in DOMAIN sig : sig[i].k = "vk"
NamedIdx(sig) == {i \in DOMAIN sig : sig[i].k \in Named}
\* the parameter a keyword argument `key=` is bound to: only pk and ko can be named (0 = none)
KwTarget(sig, key) ==
  LET S == {i \in DOMAIN sig : sig[i].k \in {"pk", "ko"} /\ Names[i] = key}
  IN  IF S = {} THEN 0 ELSE CHOOSE i \in S : TRUE

(* ---- call items --------------------------------------------------------- *)
ItemP     == [t |-> "P", k |-> "", n |-> 0, ks |-> <<>>, fv |-> FALSE]
ItemK(k)  == [t |-> "K", k |-> k, n |-> 0, ks |-> <<>>, fv |-> FALSE]
ItemKF(k) == [t |-> "K", k |-> k, n |-> 0, ks |-> <<>>, fv |-> TRUE]
ItemL(n)  == [t |-> "L", k |-> "", n |-> n, ks |-> <<>>, fv |-> FALSE]
ItemD(ks) == [t |-> "D", k |-> "", n |-> 0, ks |-> ks, fv |-> FALSE]

WellFormedItem(it) ==
  /\ it.t \in {"P", "K", "L", "D"}
  /\ it.t = "K" => it.k # ""
  /\ it.fv \in BOOLEAN /\ (it.fv => it.t = "K")
  /\ it.t = "D" => \A i, j \in DOMAIN it.ks : i # j => it.ks[i] # it.ks[j]   \* a dict has distinct keys

(* ---- binder state -------------------------------------------------------- *)
\* slot[i] = 0: parameter i not bound yet.  star / kw: what *args / **kwargs collected.
\* err: first run-time binding error (sticky).  The syntax flags describe the *literal* Python call.
B0(sig) == [slot |-> [i \in DOMAIN sig |-> 0], star |-> <<>>, kw |-> <<>>,
            npos |-> 0, nflat |-> 0, keys |-> {}, lit |-> {},
            seenK |-> FALSE, seenD |-> FALSE, seenNE |-> FALSE,
            err |-> "", synOrder |-> FALSE, synRep |-> FALSE, strict |-> FALSE, late |-> FALSE]

Fail(b, why) == IF b.err = "" THEN [b EXCEPT !.err = why] ELSE b

\* one positional value arrives
Pos1(sig, b0) ==
  LET v == b0.nflat + 1
      p == b0.npos + 1
      b == [b0 EXCEPT !.nflat = v, !.npos = p]
  IN  IF b.err # "" THEN b
      ELSE IF p <= NPos(sig)
           THEN IF b.slot[p] # 0 THEN Fail(b, "multiple values for argument")
                ELSE [b EXCEPT !.slot[p] = v]
      ELSE IF HasVa(sig) THEN [b EXCEPT !.star = Append(@, v)]
      ELSE Fail(b, "too many positional arguments")

\* one keyword value arrives
Kw1(sig, b0, key) ==
  LET v == b0.nflat + 1
      b == [b0 EXCEPT !.nflat = v, !.keys = @ \cup {key}]
      i == KwTarget(sig, key)
  IN  IF b.err # "" THEN b
      ELSE IF key \in b0.keys THEN Fail(b, "multiple values for keyword argument")
      ELSE IF i # 0
           THEN IF b.slot[i] # 0 THEN Fail(b, "multiple values for argument")
                ELSE [b EXCEPT !.slot[i] = v]
      \* unknown names, names of positional-only parameters, special keys: only **kwargs takes them
      ELSE IF HasVk(sig) THEN [b EXCEPT !.kw = Append(@, <<key, v>>)]
      ELSE Fail(b, "unexpected keyword argument")

RECURSIVE PosN(_, _, _)
PosN(sig, b, n) == IF n = 0 THEN b ELSE PosN(sig, Pos1(sig, b), n - 1)
RECURSIVE KwSeq(_, _, _, _)
KwSeq(sig, b, ks, j) == IF j > Len(ks) THEN b ELSE KwSeq(sig, Kw1(sig, b, ks[j]), ks, j + 1)

(* The compile-time rules of the literal call:                              *)
(*   - a positional argument after a keyword argument or a ** unpacking,    *)
(*   - a * unpacking after a ** unpacking,                                  *)
(*   - the same keyword written twice                                       *)
(* are SyntaxErrors.  A key that is not an identifier can only be written   *)
(* as **{"key": v}, so a special K item counts as a ** unpacking.           *)
(* seenNE: a keyword has really been supplied (K item or non-empty dict).   *)
(* strict: a positional argument written after a supplied keyword - the     *)
(*         case the property text calls "positional after keyword".         *)
(* late:   a non-empty list spread after a supplied keyword: Python accepts *)
(*         it (positional values are bound first).                          *)
Consume(sig, b, it) ==
  CASE it.t = "P" ->
         Pos1(sig, [b EXCEPT !.synOrder = @ \/ b.seenK \/ b.seenD, !.strict = @ \/ b.seenNE])
    [] it.t = "L" ->
         PosN(sig, [b EXCEPT !.synOrder = @ \/ b.seenD, !.late = @ \/ (it.n > 0 /\ b.seenNE)], it.n)
    [] it.t = "K" /\ it.k \notin SpecialKeys ->
         Kw1(sig, [b EXCEPT !.synRep = @ \/ it.k \in b.lit, !.lit = @ \cup {it.k},
                            !.seenK = TRUE, !.seenNE = TRUE], it.k)
    [] it.t = "K" /\ it.k \in SpecialKeys ->
         Kw1(sig, [b EXCEPT !.seenD = TRUE, !.seenNE = TRUE], it.k)
    [] it.t = "D" ->
         KwSeq(sig, [b EXCEPT !.seenD = TRUE, !.seenNE = @ \/ Len(it.ks) > 0], it.ks, 1)

\* the binder state after a whole call
RECURSIVE RunR(_, _, _)
RunR(sig, call, n) == IF n = 0 THEN B0(sig) ELSE Consume(sig, RunR(sig, call, n - 1), call[n])
Run(sig, call) == RunR(sig, call, Len(call))

(* ---- outcomes ------------------------------------------------------------ *)
Ok(slot, star, kw) == [o |-> "ok", slot |-> slot, star |-> star, kw |-> kw]
TypeErr   == [o |-> "type",   slot |-> <<>>, star |-> <<>>, kw |-> <<>>]
SyntaxErr == [o |-> "syntax", slot |-> <<>>, star |-> <<>>, kw |-> <<>>]

Missing(sig, slot) == {i \in NamedIdx(sig) : slot[i] = 0 /\ ~sig[i].d}
WithDefaults(sig, slot) ==
  [i \in DOMAIN sig |-> IF i \in NamedIdx(sig) /\ slot[i] = 0 THEN Def(i) ELSE slot[i]]

\* what the run-time binding answers when the call ends in state b
Runtime(sig, b) ==
  IF b.err # "" THEN TypeErr
  ELSE IF Missing(sig, b.slot) # {} THEN TypeErr
  ELSE Ok(WithDefaults(sig, b.slot), b.star, b.kw)

\* what Python answers for the literal call
Outcome(sig, b) == IF b.synOrder \/ b.synRep THEN SyntaxErr ELSE Runtime(sig, b)

\* two outcomes are the same answer (kwargs is a dict: order of insertion is not part of equality)
Range(s) == {s[i] : i \in DOMAIN s}
SameOutcome(x, y) ==
  /\ x.o = y.o
  /\ x.o = "ok" => /\ x.slot = y.slot /\ x.star = y.star
                   /\ Len(x.kw) = Len(y.kw) /\ Range(x.kw) = Range(y.kw)

(* ---- the same relation, declaratively ------------------------------------ *)
\* the arguments one item contributes, numbered from v0+1; s = produced by a spread
ItemElems(it, v0) ==
  CASE it.t = "P" -> << [k |-> "", v |-> v0 + 1, s |-> FALSE, fv |-> FALSE] >>
    [] it.t = "K" -> << [k |-> it.k, v |-> v0 + 1, s |-> FALSE, fv |-> it.fv] >>
    [] it.t = "L" -> [j \in 1..it.n |-> [k |-> "", v |-> v0 + j, s |-> TRUE, fv |-> FALSE]]
    [] it.t = "D" -> [j \in 1..Len(it.ks) |-> [k |-> it.ks[j], v |-> v0 + j, s |-> TRUE, fv |-> FALSE]]
RECURSIVE FlatR(_, _)
FlatR(call, n) == IF n = 0 THEN <<>>
                  ELSE LET f == FlatR(call, n - 1) IN f \o ItemElems(call[n], Len(f))
Flat(call) == FlatR(call, Len(call))

\* Python collects all positional values first (also those of a * unpacking written after a
\* keyword), then the keywords.
BindDecl(sig, flat) ==
  LET pos  == SelectSeq(flat, LAMBDA e : e.k = "")
      kws  == SelectSeq(flat, LAMBDA e : e.k # "")
      np   == NPos(sig)
      keys == {kws[j].k : j \in DOMAIN kws}
      KwVal(key) == kws[CHOOSE j \in DOMAIN kws : kws[j].k = key].v
      byPos(i) == i <= np /\ i <= Len(pos)
      byKw(i)  == sig[i].k \in {"pk", "ko"} /\ Names[i] \in keys
      extra == SelectSeq(kws, LAMBDA e : KwTarget(sig, e.k) = 0)
      slot == [i \in DOMAIN sig |->
                 IF byPos(i) THEN pos[i].v
                 ELSE IF byKw(i) THEN KwVal(Names[i])
                 ELSE IF i \in NamedIdx(sig) THEN Def(i) ELSE 0]
  IN  IF \/ \E j1, j2 \in DOMAIN kws : j1 # j2 /\ kws[j1].k = kws[j2].k      \* repeated keyword
         \/ Len(pos) > np /\ ~HasVa(sig)                                      \* too many positional
         \/ \E i \in DOMAIN sig : byPos(i) /\ byKw(i)                         \* multiple values
         \/ Len(extra) > 0 /\ ~HasVk(sig)                                     \* unexpected keyword
         \/ \E i \in NamedIdx(sig) : ~byPos(i) /\ ~byKw(i) /\ ~sig[i].d       \* missing
      THEN TypeErr
      ELSE Ok(slot,
              IF Len(pos) > np THEN [j \in 1..(Len(pos) - np) |-> pos[np + j].v] ELSE <<>>,
              [j \in DOMAIN extra |-> <<extra[j].k, extra[j].v>>])

(* ---- what the property admits for the tag --------------------------------- *)
(* Rejections are TypeError; for a positional argument after a keyword the  *)
(* property also allows SyntaxError.  Not determined by the property text   *)
(* or the docs (the specification admits every listed answer):              *)
(*  Z1 a non-empty list spread after a keyword (Python accepts; the docs     *)
(*     only say "spreads must come after positional arguments");            *)
(*  Z2 a positional argument or list spread after an *empty* dict spread    *)
(*     (Python: SyntaxError; no keyword has been supplied);                 *)
(*  Z3 a key repeated where one occurrence comes from a spread (Python:     *)
(*     TypeError; docs/.../template_tag_syntax.md: "the values added later  *)
(*     (right-most) overwrite previous values");                            *)
(*  Z4 the same identifier keyword written twice literally: the property    *)
(*     says TypeError, the literal Python call is a SyntaxError - both.     *)
LastWins(flat) ==
  SelectSeq(flat, LAMBDA e : e.k = "" \/ ~\E j \in DOMAIN flat : flat[j].k = e.k /\ flat[j].v > e.v)
SpreadDup(flat) ==
  \E i, j \in DOMAIN flat : i < j /\ flat[i].k # "" /\ flat[i].k = flat[j].k /\ (flat[i].s \/ flat[j].s)

Admissible(sig, call, b) ==
  IF b.strict THEN {TypeErr, SyntaxErr}
  ELSE LET flat == Flat(call)
           base == {Runtime(sig, b)} \cup
                   (IF SpreadDup(flat) THEN {BindDecl(sig, LastWins(flat))} ELSE {})
       IN  IF b.synOrder \/ b.late THEN base \cup {TypeErr, SyntaxErr}
           ELSE IF b.synRep THEN base \cup {SyntaxErr}
           ELSE base

(* ---- the machine ----------------------------------------------------------- *)
VARIABLES sig, call, b
abVars == <<sig, call, b>>

ABInit == sig = <<>> /\ call = <<>> /\ b = B0(<<>>)

Declare(p) == /\ call = <<>>
              /\ WellFormed(Append(sig, p))
              /\ sig' = Append(sig, p)
              /\ b' = B0(sig')
              /\ UNCHANGED call

Pass(it) == /\ WellFormedItem(it)
            /\ call' = Append(call, it)
            /\ b' = Consume(sig, b, it)
            /\ UNCHANGED sig

(* ---- theorems checked by TLC on every reachable state ---------------------- *)
\* the binder state is a function of (signature, call): binding is deterministic
StateIsFunctionOfCase == b = Run(sig, call)

\* (also when a list spread arrives after keywords: only the kind of error may differ)
MachineAgreesWithDeclarative == SameOutcome(Runtime(sig, b), BindDecl(sig, Flat(call)))

\* in an accepted call every supplied value is bound exactly once, nothing else is bound
ValuesOf(o) == [slots |-> {o.slot[i] : i \in DOMAIN o.slot} \ {0},
                star  |-> Range(o.star), kw |-> {p[2] : p \in Range(o.kw)}]
EveryValueBoundOnce ==
  LET o == Runtime(sig, b) IN
  o.o = "ok" =>
    LET V == ValuesOf(o) IN
    /\ (V.slots \cup V.star \cup V.kw) \ {Def(i) : i \in DOMAIN sig} = 1..b.nflat
    /\ Cardinality({i \in NamedIdx(sig) : o.slot[i] \in 1..b.nflat}) + Len(o.star) + Len(o.kw) = b.nflat
    /\ \A i \in NamedIdx(sig) : o.slot[i] \in 1..b.nflat \/ (sig[i].d /\ o.slot[i] = Def(i))

\* a key that is not an identifier is accepted only through **kwargs
KeysNonIdentifierOnlyViaKwargs ==
  LET o == Runtime(sig, b)
      flat == Flat(call) IN
  o.o = "ok" => \A j \in DOMAIN flat : flat[j].k \in SpecialKeys =>
                   HasVk(sig) /\ <<flat[j].k, flat[j].v>> \in Range(o.kw)

\* a positional-only parameter never receives a keyword value
PositionalOnlyNeverByKeyword ==
  LET o == Runtime(sig, b)
      flat == Flat(call) IN
  o.o = "ok" => \A i \in DOMAIN sig : sig[i].k = "po" =>
                   \/ o.slot[i] = Def(i)
                   \/ \E j \in DOMAIN flat : flat[j].v = o.slot[i] /\ flat[j].k = ""

\* a binding error is never repaired by further arguments
ErrorsAreSticky == [][b.err # "" => b'.err = b.err]_abVars
=============================================================================
