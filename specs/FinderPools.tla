----------------------------- MODULE FinderPools -----------------------------
(* The finite alphabets from which MC_C17 / MC_C17K build their cases:      *)
(* file names, directories, pattern pool and the catalogue of hand-picked   *)
(* configurations.  No variables.                                           *)
EXTENDS Finder

Names == <<
  "a.js", "a.py", "t.html", "s.css", "A.JS", "b.jsx",          \* 1-6   plain, upper-case, look-alike ext
  "c.tar.gz", "c.tarXgz", "f.js\n", "p.py\n",                  \* 7-10  multi-dot, dot look-alike, trailing newline
  "x.py.js", "x.js.py", ".js", ".hid.css", "js", "noext",      \* 11-16 double ext, hidden, no dot
  "m.min.js", "m.minXjs", "v.c++", "v.c", "i.d.ts", "i.dXts",  \* 17-22 regex metacharacters in the extension
  "test_a.js", "a.pyc", "a.PY", "k.tpl", "a.js.map", "a.js~",  \* 23-28
  "w[1].js", "a$.js", "q.django", "u.Py",                     \* 29-32 metacharacters in the stem
  "admin.js", "LICENSE", "nodejs" >>                           \* 33-35 end with a plain suffix ("min.js", "LICENSE", "js")
                                                               \*       that is not preceded by a dot
Dirs == << <<>>, <<"sub">>, <<"vendor", "lib">>, <<"pkg.py">>, <<"test_d", "in.js">> >>

PatPool == <<
  Sfx(".js"), Sfx(".py"), Sfx(".tar.gz"), Sfx(".min.js"), Sfx(".c++"), Sfx(".JS"), Sfx(".d.ts"), Sfx(".css"),
  Rx("any"), Rx("js_dollar"), Rx("min_asset"), Rx("upper_ext"), Rx("test_part"), Rx("vendor_dir"),
  Rx("hidden"), Rx("py_anycase"), Rx("no_ext"),
  \* 18-21 plain suffixes without a leading dot: part of an extension, tail of a stem, part of a multi-dot
  \* extension, a whole file name
  Sfx("js"), Sfx("_a.js"), Sfx("min.js"), Sfx("LICENSE") >>

Cfgs == <<
  Cfg(Unset, Unset, Unset),                                                  \*  1 defaults
  Cfg(Lst(<<>>), Unset, Unset),                                              \*  2 nothing allowed
  Cfg(Unset, Lst(<<>>), Unset),                                              \*  3 nothing forbidden
  Cfg(Lst(<<Sfx(".tar.gz")>>), Unset, Unset),                                \*  4 multi-dot suffix
  Cfg(Lst(<<Sfx(".c++"), Sfx(".d.ts")>>), Unset, Unset),                     \*  5 metacharacter suffixes
  Cfg(Lst(<<Rx("any")>>), Unset, Unset),                                     \*  6 allow all, default forbid
  Cfg(Lst(<<Rx("any")>>), Lst(<<>>), Unset),                                 \*  7 everything exposed
  Cfg(Lst(<<Rx("min_asset")>>), Lst(<<Rx("test_part")>>), Unset),            \*  8 regex only
  Cfg(Unset, Unset, Lst(<<Sfx(".js")>>)),                                    \*  9 deprecated setting name
  Cfg(Lst(<<Sfx(".js"), Sfx(".py")>>), Lst(<<Sfx(".py")>>), Unset),          \* 10 forbid wins
  Cfg(Lst(<<Sfx(".js")>>), Lst(<<Sfx(".min.js"), Rx("vendor_dir")>>), Unset),\* 11 multi-dot forbidden + dir regex
  Cfg(Lst(<<Rx("js_dollar")>>), Lst(<<Rx("upper_ext")>>), Unset),            \* 12
  Cfg(Lst(<<Rx("any")>>), Lst(<<Sfx(".min.js"), Sfx(".py")>>), Unset),       \* 13 allow all, suffix forbid
  Cfg(Lst(<<Rx("any")>>), Lst(<<Rx("py_anycase"), Rx("hidden")>>), Unset),   \* 14
  Cfg(Lst(<<Sfx(".JS"), Rx("no_ext")>>), Unset, Unset),                      \* 15 upper-case suffix
  Cfg(Lst(<<Rx("any")>>), Unset, Lst(<<Rx("test_part"), Sfx(".tar.gz")>>)), \* 16 deprecated name, mixed
  Cfg(Lst(<<Sfx(".css"), Sfx("js"), Sfx("LICENSE"), Sfx("noext")>>),         \* 17 plain suffixes (no leading dot): extension
      Lst(<<Sfx("_a.js"), Sfx("min.js"), Sfx("y.js"), Sfx("$.js")>>), Unset) >>\*  without its dot and whole names allowed;
                                                                             \*    stem tails / extension parts forbidden

Parts(e) == Dirs[e.d] \o <<Names[e.n]>>
PathStr(e) == JoinParts(Parts(e))

SuffixesOf(c) == {p \in EffAllowed(c) \cup EffForbidden(c) : p.k = "suffix"}
\* every suffix used is in scope (a dotted one inside the deviation model)
SuffixesOK(c) == \A p \in SuffixesOf(c) : SuffixInScope(p.s)
\* the alphabets can tell "suffix as given" from "suffix with a dot prepended": every plain suffix of the
\* pool and of the catalogue has a name that ends with it but not with "." \o suffix, in a directory too
PlainSuffixes == {p \in Range(PatPool) \cup UNION {SuffixesOf(Cfgs[i]) : i \in DOMAIN Cfgs} :
                    p.k = "suffix" /\ ~StartsWith(p.s, ".")}
ASSUME PlainSuffixesTold ==
  /\ Cardinality(PlainSuffixes) >= 4
  /\ \A p \in PlainSuffixes : \E i \in DOMAIN Names :
        TellsDotted(p, Names[i]) /\ TellsDotted(p, JoinParts(Dirs[2] \o <<Names[i]>>))

FileRow(p, c) == [p |-> p, exp |-> Exposed(p, c), dev |-> DevExposed(p, c), keys |-> DevKeys(p, c)]
FileTheorems(p, c) == /\ DefaultsHideBackend(p, c)
                      /\ ForbidWins(p, c)
                      /\ EmptyAllowedHidesAll(p, c)
                      /\ (Exposed(p, c) # DevExposed(p, c) => DevKeys(p, c) # {})
                      /\ \A q \in SuffixesOf(c) \ (DefaultAllowed \cup DefaultForbidden) :
                            BaseNameSuffices(q, p) /\ DotPrependNarrows(q, p)
=============================================================================
