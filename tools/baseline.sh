#!/bin/sh
# Runs the repository's pinned test suite (guard off) and compares with /root/.vp/BASELINE.json.
mkdir -p /verif/.work
cd /repo && /venv/bin/python -m pytest -q -p no:cacheprovider --timeout=900 --continue-on-collection-errors --junitxml=/verif/.work/junit.xml >/verif/.work/pytest.log 2>&1
/venv/bin/python - <<'PY'
import json, sys, xml.etree.ElementTree as ET
want=set(json.load(open('/root/.vp/BASELINE.json'))['stable_pass'])
passed=set()
for tc in ET.parse('/verif/.work/junit.xml').iter('testcase'):
    if not any(c.tag in ('failure','error','skipped') for c in tc):
        passed.add(f"{tc.get('classname')}::{tc.get('name')}")
missing=sorted(want-passed)
print(f"baseline stable_pass={len(want)} passed_now={len(passed)} missing={len(missing)}")
for m in missing[:20]: print("  MISSING", m)
sys.exit(1 if missing else 0)
PY
