#!/bin/sh
# tools/seedrun.sh <seeded dir name, e.g. C06-7> <check id> [more check ids]: runs the quick tier of the checks against a scratch
# worktree of /repo HEAD with the seeded change applied (PYTHONPATH), prints exit code and number of VIOLATION lines.
d=$1; shift
wt=/tmp/seedrun_$d
git -C /repo worktree remove --force $wt >/dev/null 2>&1
git -C /repo worktree add -f $wt HEAD -q || exit 2
git -C $wt apply /verif/seeded/$d/patch.diff || { echo "patch does not apply"; git -C /repo worktree remove --force $wt; exit 2; }
for c in "$@"; do
  out=/verif/.work/seedrun_${d}_$c.log
  (cd /verif && PYTHONPATH=$wt/src ./check $c --tier quick > $out 2>&1); rc=$?
  echo "$d $c exit=$rc violations=$(grep -c '^VIOLATION' $out) $(tail -1 $out)"
done
git -C /repo worktree remove --force $wt
