#!/usr/bin/env python3
"""tools/seedprep.py <round> <PID> [...]: prepares /tmp/seed<round>_<PID>/ (TASK.md + scratch git worktree of /repo HEAD)
for an independent sub-agent that seeds breaking changes.  The agent sees only the property text, never /verif."""
import json, os, subprocess, sys
rnd = sys.argv[1]
props = {json.loads(l)["id"]: json.loads(l) for l in open("/verif/properties.jsonl")}
for pid in sys.argv[2:]:
    p = props[pid]
    d = f"/tmp/seed{rnd}_{pid}"
    os.makedirs(d + "/out", exist_ok=True)
    subprocess.run(f"git -C /repo worktree remove --force {d}/repo; git -C /repo worktree add -f {d}/repo HEAD -q", shell=True,
                   capture_output=True)
    # mechanisms already used in earlier rounds (titles only), so that the new changes differ
    used = []
    for n in range(1, 13):
        f = f"/verif/seeded/{pid}-{n}/README.md"
        if os.path.exists(f):
            lines = [l.strip("# \n") for l in open(f) if l.strip()]
            used.append(lines[0][:200] if lines else "")
    open(d + "/TASK.md", "w").write(f"""# Seed realistic breaking changes for ONE semantic property

You work ONLY inside `{d}`. `{d}/repo` is a scratch git worktree of the Python library
django-components (source under `repo/src/django_components`, tests under `repo/tests`, docs under `repo/docs`).
Never touch `/repo` or `/verif` (do not read /verif either). No network. Python: `/venv/bin/python`
(Django and the library's dependencies are installed; to import YOUR worktree's code run everything with
`PYTHONPATH={d}/repo/src`).

## The property (of the UNCHANGED library)

**{p['id']} - {p['title']}**

{p['statement']}

Quantifier: {p['quantifier']['text']}

Code anchors: {json.dumps(p['anchors'])[:1500]}

## Your job

Produce **two** independent changes to the library source (`repo/src/django_components/**` only), each of which

1. is *realistic*: the kind of regression a refactoring, an optimisation, a clean-up or a well-meant bug fix introduces -
   not sabotage (no `if value == "magic"`), no changes to tests, at most ~20 changed lines, still imports;
2. **keeps the pinned test suite green**: run, in `repo/`,
   `PYTHONPATH={d}/repo/src /venv/bin/python -m pytest -q -p no:cacheprovider --timeout=900 -x -q tests 2>&1 | tail -5`
   on the unchanged worktree first and note which tests fail there already (some e2e tests fail without a browser -
   ignore those); with your change exactly the same tests must pass;
3. **breaks the property** for some input: show it with a standalone script `demo.py` (sets up Django itself with
   `settings.configure(...)`, `django.setup()`, prints what it observes) that **exits 0 on the unchanged worktree and
   exits 1 with your change applied**, when run as `cd {d}/repo && PYTHONPATH={d}/repo/src /venv/bin/python demo.py`;
4. is *subtle*: prefer changes that affect only some inputs (a specific configuration, an error path, a boundary case,
   nesting depth >= 2, a second render in the same process, a rarely used option, an interaction of two features), so that a
   casual smoke test would not notice. The two changes must differ from each other in location and mechanism.

Changes already produced by earlier rounds for this property (do something DIFFERENT in mechanism/location):
{chr(10).join('- ' + u for u in used) or '- (none)'}

## Deliverables

For n = 1, 2: `{d}/out/<n>/patch.diff` (`git diff` of the worktree against HEAD, applies with `git apply` to a clean
checkout), `{d}/out/<n>/demo.py`, `{d}/out/<n>/README.md` (first line: a one-line title of the change; then what was
changed, why it looks innocent, which inputs break and how). Reset the worktree (`git checkout -- .`) between the two
changes and at the end. Verify each deliverable yourself from a clean worktree before finishing (apply patch -> suite
still green -> demo exits 1; revert -> demo exits 0). Final answer: three lines per change (title, files touched, failing input).
""")
    print("prepared", d)
