#!/venv/bin/python
"""tools/applyfix.py <diff> <PID> <key[,key...]> <commit subject> [--body TEXT]
Apply a proposed fix to /repo as one `fix:` commit after (1) the pinned test suite still passes and
(2) the property's quick check passes without KNOWN-FINDING lines for the given keys; then turn the
`finding:` lines into `fixed:` lines."""
import re, subprocess, sys
diff, pid, keys, subject = sys.argv[1:5]
body = sys.argv[6] if len(sys.argv) > 6 and sys.argv[5] == "--body" else ""
keys = keys.split(",")
def sh(cmd, **kw):
    return subprocess.run(cmd, shell=True, capture_output=True, text=True, **kw)
r = sh(f"git -C /repo apply --check '{diff}'")
if r.returncode:
    print("does not apply:", r.stderr[:500]); sys.exit(1)
sh(f"git -C /repo apply '{diff}'")
r = sh("/verif/tools/baseline.sh")
print(r.stdout.strip().splitlines()[-1] if r.stdout.strip() else r.stderr[-300:])
if r.returncode:
    sh("git -C /repo checkout -- ."); print("SUITE BROKEN - reverted"); sys.exit(1)
bad = False
for p in pid.split(","):
    r = sh(f"cd /verif && timeout 1500 ./check {p} --tier quick")
    out = r.stdout + r.stderr
    last = [l for l in out.splitlines() if l.startswith(p + " tier=")]
    print(last[-1] if last else out[-400:])
    hit = [k for k in keys if f"property={p} key={k} " in out and "KNOWN-FINDING" in out]
    if r.returncode or hit:
        print("CHECK NOT CLEAN", r.returncode, hit); bad = True
if bad:
    sh("git -C /repo checkout -- ."); print("reverted"); sys.exit(1)
msg = "fix: " + subject + ("\n\n" + body if body else "")
sh("git -C /repo add -A")
r = subprocess.run(["git", "-C", "/repo", "commit", "-q", "-m", msg], capture_output=True, text=True)
h = sh("git -C /repo rev-parse --short HEAD").stdout.strip()
lines = open("/verif/KNOWN_FINDINGS.txt").read().splitlines()
out = []
for l in lines:
    m = re.match(r"finding:\s+property=(\S+)\s+key=(\S+)\s+(.*)", l)
    if m and m.group(1) in pid.split(",") and m.group(2) in keys:
        out.append(f"fixed: property={m.group(1)} {h} [{m.group(2)}] {m.group(3)}")
    else:
        out.append(l)
open("/verif/KNOWN_FINDINGS.txt", "w").write("\n".join(out) + "\n")
print("committed", h)
