#!/venv/bin/python
"""tools/seedtest.py <PID> <n> [<check ids, comma separated>]
Takes a seeded breaking change produced by an independent sub-agent in /tmp/seed_<PID>/out/<n>,
confirms it (demo passes on the current tree, fails with the change; pinned suite still passes),
stores it under /verif/seeded/<PID>-<n>/ and runs the given checks (default: <PID>) against a scratch
worktree of /repo's HEAD with the change applied (PYTHONPATH), recording which checks catch it."""
import json, os, shutil, subprocess, sys, time
pid, n = sys.argv[1], sys.argv[2]
checks = (sys.argv[3] if len(sys.argv) > 3 else pid).split(",")
# SEED_ROUND=k (k >= 2): the change comes from /tmp/seed<k>_<PID>/out/<n> and is stored as seeded/<PID>-<n + 2(k-1)>
rnd = int(os.environ.get("SEED_ROUND", "1"))
src = f"/tmp/seed_{pid}/out/{n}" if rnd == 1 else f"/tmp/seed{rnd}_{pid}/out/{n}"
n = str(int(n) + 2 * (rnd - 1))
dst = f"/verif/seeded/{pid}-{n}"
os.makedirs(dst, exist_ok=True)
for f in ("patch.diff", "demo.py", "README.md"):
    if os.path.exists(f"{src}/{f}"):
        shutil.copy(f"{src}/{f}", f"{dst}/{f}")
def sh(cmd, env=None, timeout=3000):
    e = dict(os.environ); e.update(env or {})
    return subprocess.run(cmd, shell=True, capture_output=True, text=True, env=e, timeout=timeout)
wt = f"/tmp/seedrun_{pid}_{n}"
sh(f"git -C /repo worktree remove --force {wt}")
r = sh(f"git -C /repo worktree add -f {wt} HEAD -q")
meta = {"property": pid, "n": int(n), "ran": []}
envp = {"PYTHONPATH": f"{wt}/src"}
d0 = sh(f"cd {wt} && /venv/bin/python {dst}/demo.py", envp, 600)
meta["demo_on_unchanged"] = d0.returncode
a = sh(f"git -C {wt} apply {dst}/patch.diff")
if a.returncode:
    a = sh(f"git -C {wt} apply -3 {dst}/patch.diff")
meta["applies"] = a.returncode == 0
if a.returncode:
    print("PATCH DOES NOT APPLY", a.stderr[:400])
else:
    d1 = sh(f"cd {wt} && /venv/bin/python {dst}/demo.py", envp, 600)
    meta["demo_with_change"] = d1.returncode
    meta["demo_output_with_change"] = (d1.stdout + d1.stderr)[-600:]
    t = sh(f"cd {wt} && /venv/bin/python -m pytest -q -p no:cacheprovider --timeout=900 --continue-on-collection-errors "
           f"--junitxml={wt}/junit.xml >/dev/null 2>&1; /venv/bin/python - <<'PY'\n"
           "import json, xml.etree.ElementTree as ET\n"
           "want=set(json.load(open('/root/.vp/BASELINE.json'))['stable_pass'])\n"
           f"p=set(f\"{{tc.get('classname')}}::{{tc.get('name')}}\" for tc in ET.parse('{wt}/junit.xml').iter('testcase') if not any(c.tag in ('failure','error','skipped') for c in tc))\n"
           "print(len(want-p))\nPY", envp, 1500)
    meta["suite_missing_passes"] = t.stdout.strip()
    for c in checks:
        t0 = time.time()
        r = sh(f"cd /verif && ./check {c} --tier quick", envp, 2400)
        out = r.stdout + r.stderr
        viol = [l for l in out.splitlines() if l.startswith("VIOLATION")]
        meta["ran"].append({"check": c, "exit": r.returncode, "violations": len(viol), "first": viol[:2],
                            "summary": [l for l in out.splitlines() if l.startswith(c + " tier=")][-1:], "wall_s": round(time.time() - t0)})
        print(c, "exit", r.returncode, "violation lines", len(viol))
readme = open(f"{dst}/README.md").read() if os.path.exists(f"{dst}/README.md") else ""
meta["what_it_needs"] = readme[:1500]
json.dump(meta, open(f"{dst}/meta.json", "w"), indent=1)
sh(f"git -C /repo worktree remove --force {wt}")
print(json.dumps({k: v for k, v in meta.items() if k not in ("what_it_needs", "demo_output_with_change")}, indent=1))
