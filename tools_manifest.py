#!/venv/bin/python
"""Regenerates MANIFEST.json from the table below (single source of truth) and validates it."""
import json, sys
from pathlib import Path

ROOT = Path(__file__).resolve().parent
ALL = [f"C{i:02d}" for i in range(1, 21)]

# pid -> (category, technique, text, note, design_ref)
CHECKS = {
 "C01": ("model_checking",
         "TLC-evaluated reference semantics (DjcSemantics.tla) + exhaustive page enumeration (MC_Djc.tla) replayed on the real library + TLC validation of recorded renders of random programs",
         "An explicit TLA+ reference semantics of component programs (slot rule, fill closures, lexical owner, is_filled, required, "
         "scoping per mode) is the oracle. TLC enumerates every page up to a node bound over a component library containing every slot "
         "feature (x2 context modes), checks theorems of the semantics, and exports each page with its expected token stream; every one is "
         "rendered by the real library and compared. Seeded random libraries/pages (depth 3-4) are rendered as plain tags, through the dynamic "
         "component and through Component.render(slots=) and the observations validated by TLC against the same semantics. Disagreements are "
         "accepted only if they equal what a named, listed deviation of the specification predicts (KNOWN-FINDING).",
         "Bounded: exhaustive to 3 (quick) / 4 (thorough) page nodes over a fixed 4-component library; beyond that sampled. Well-formed programs "
         "only; constructs whose outcome the property does not determine are flagged as zones by the specification and skipped.",
         "§3, §4 C01"),
 "C03": ("model_checking",
         "TLC-evaluated reference semantics (layered scoping rules of DjcSemantics.tla) + exhaustive enumeration of colliding-name pages (MC_Djc 'scope') replayed with context probes + TLC validation of random programs, 2-run pairs and Component.render(context=)",
         "The scoping rules of the TLA+ reference semantics (what a component template sees per mode/`only`; what a fill sees) are the oracle; "
         "TLC enumerates every page up to a node bound over an alphabet of colliding names (page context, loop variables, with-bindings, kwargs, "
         "component data, `only`) in both modes and checks NonInterference as a theorem of the semantics; every page is replayed on the real "
         "library with the caller's Context fingerprinted before/after every component tag and around the render. Random colliding programs, "
         "isolated 2-run pairs under two different page contexts and Component.render(context=) are validated by TLC against the same semantics. "
         "Known deviations are named switches of the specification and must predict the observation exactly.",
         "Bounded exhaustive part (3/4 page nodes, fixed library); isolated-mode {% with %} between tag and fill that re-binds a bound name is an "
         "unspecified zone (flagged by the spec, skipped).",
         "§3, §4 C03"),
 "C05": ("model_checking",
         "TLC-evaluated reference semantics (provider chain along the rendered structure in DjcSemantics.tla) + implementation-shaped refcount machine DjcProvide.tla model-checked + exhaustive 'provide' pages replayed + TLC validation of random programs and same-process render histories",
         "The `prov` threading of the TLA+ reference semantics decides every inject() result (nearest provider of the rendered structure, default, KeyError, "
         "exact kwargs). DjcProvide.tla models provide_cache / provide_references / all_reference_ids with one action per critical section in the "
         "deferred call order; TLC checks InjectSound, Quiescent and EntryDeletedOnlyWhenDone for all scenarios (and refutes the pre-fix variant as a "
         "vacuity guard). Every enumerated page (providers, two keys, loops, consumers with/without default, provider around a slot) is replayed in both "
         "modes; random programs and histories of 25-40 consecutive renders in one process are validated, with the registries inspected after each render.",
         "A {% provide %} wrapped around a {% fill %} tag is outside the quantifier. KeyError compared by class. Refcount machine bound to the code through "
         "observable inject results and registry residue, not by a step-by-step trace.",
         "§4 C05, A.2"),
 "C15": ("model_checking",
         "TLC state graph of Registry.tla (registries x libraries x formatters) with every transition exported and replayed on real ComponentRegistry/Library objects + TLC trace validation of random histories + implementation-shaped RegistryImpl refinement",
         "RegistryOps/Registry.tla specify register / decorate / unregister / clear / get / has / all / formatter switch over worlds [reg, lib, fmt] with the "
         "admitted outcomes; TLC checks DictLike, TagIffUsed, ProtectedUntouched, ErrorsExact, SameClassNoOp, QueriesPure, Independent. Every transition of "
         "21 (quick) / 36 (thorough) configurations is replayed on fresh real objects from a shortest path, all call sequences to depth 5-6 are replayed "
         "exhaustively, and random traces (3 registries, 6 names, shared libraries, switching formatters) are validated by Trace_C15.",
         "Templates are not compiled (the process-global start-tag table is outside C15); classes sharing a _class_hash are not generated; a taken-over "
         "pre-existing unprotected tag may be absent or restored afterwards (both admitted).",
         "§4 C15"),
 "C19": ("model_checking",
         "TLC enumeration of render / clear / redefine / prerender histories of ScriptEndpoint.tla with admissible-answer tables, each replayed with django.test.Client + TLC trace validation of random histories",
         "ScriptEndpoint.tla models the media cache entries a render must make servable, class redefinition, pre-rendered HTML finished later, cache clears "
         "and GETs over the whole request alphabet (hash x kind x input hash x method); TLC checks EmittedAreServed, MustServeDetermined, AnswersSane. Every "
         "history up to the bound is one TLC state exported with its emitted set and per-request admissible answers and replayed on fresh real Component "
         "classes via Component.render / render_to_response / Template+render_dependencies; emitted URLs are taken from the real HTML and fetched. Random "
         "longer traces (also through COMPONENTS.cache='default') are validated by Trace_C19.",
         "Served bodies compared after stripping outer whitespace; variables-script bodies not checked (feature marked TODO upstream); evictions during a "
         "single render call not modelled; ASCII class names.",
         "§4 C19"),
 "C18": ("model_checking",
         "TLC exhaustive state graph of LRUCache/TemplateCache + transition replay + TLC trace validation",
         "TLC enumerates the complete state graph of the LRU specification for every cache size and checks "
         "Bounded/DictMatchesList/EvictsLRU/Identity/Transparent; every transition is replayed on the real LRUCache with "
         "the projected state (dict + both list walks) compared before and after, which by induction covers every "
         "history over those keys; random long histories of LRUCache, cached_template() and component renders under "
         "template_cache_size 0/1/2/3/128 are validated by TLC against the same specification.",
         "Projection (dict items, forward/backward walk, sentinels) is assumed to capture all behaviour-relevant state; "
         "bounded to 3-4 keys exhaustively, 8 keys in random traces; Django's Template class trusted.",
         "§4 C18"),
}
NOT_YET = "check not built yet in this session; planned per DESIGN.md §8"

def main():
    checks = []
    for pid in ALL:
        if pid not in CHECKS:
            continue
        cat, tech, text, note, ref = CHECKS[pid]
        checks.append({
            "property_id": pid,
            "quick_cmd": f"./check {pid} --tier quick",
            "thorough_cmd": f"./check {pid} --tier thorough",
            "evidence_file": f"/verif/evidence/{pid}.json",
            "replay_cmd_template": f"./check {pid} --replay {{path}}",
            "engine": "tlc+replay",
            "level_claimed": {"category": cat, "text": text, "design_ref": ref},
            "level_note": note,
            "technique": tech,
        })
    hooks = json.loads((ROOT / "hooks.json").read_text()) if (ROOT / "hooks.json").exists() else {"source_commits": []}
    m = {
        "version": 1,
        "setup_cmd": "mkdir -p /verif/.work /verif/evidence /verif/replays && java -version 2>&1 | head -1 && /venv/bin/python -c 'import django, django_components'",
        "hooks": {
            "guard": "DJC_VERIF",
            "enable": "no source hooks are needed so far: observation is through public API, user callbacks and harness-side "
                      "wrappers; if hooks are added they are enabled with DJC_VERIF=1",
            "baseline_off_cmd": "cd /repo && /venv/bin/python -m pytest -ra -q -p no:cacheprovider --timeout=900 --continue-on-collection-errors",
            "source_commits": hooks.get("source_commits", []),
            "add_only": True,
        },
        "engines": [{"name": "tlc+replay", "path": "/verif/vf", "serves_properties": sorted(CHECKS),
                     "kind_free_text": "explicit TLA+ specifications in /verif/specs checked by TLC; TLC-exported cases replayed "
                                       "on the real library; traces recorded from the real library validated by TLC"}],
        "checks": checks,
        "not_applicable": [{"property_id": p, "reason": NOT_YET} for p in ALL if p not in CHECKS],
        "notes": "See DESIGN.md. Known findings: KNOWN_FINDINGS.txt. Seeded breaking changes: seeded/.",
    }
    (ROOT / "MANIFEST.json").write_text(json.dumps(m, indent=1) + "\n")
    try:
        sys.path.insert(0, "/opt/veriftools/pyvenv/lib/python3.11/site-packages")
        import jsonschema
        jsonschema.validate(m, json.load(open("/root/.vp/MANIFEST.schema.json")))
        print("MANIFEST.json valid;", len(checks), "checks")
    except ImportError:
        print("MANIFEST.json written (jsonschema not importable here)")

main()
