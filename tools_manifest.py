#!/venv/bin/python
"""Regenerates MANIFEST.json from the table below (single source of truth) and validates it."""
import json, sys
from pathlib import Path

ROOT = Path(__file__).resolve().parent
ALL = [f"C{i:02d}" for i in range(1, 21)]

# pid -> (category, technique, text, note, design_ref)
CHECKS = {
 "C01": ("model_checking",
         "TLC-evaluated reference semantics (DjcSemantics.tla) + exhaustive page enumeration (MC_Djc.tla) replayed on the real library + TLC validation of recorded renders of random programs",
         "An explicit TLA+ reference semantics of component programs (slot rule, fill closures, lexical owner, is_filled, required, "
         "scoping per mode) is the oracle. TLC enumerates every page up to a node bound over a component library containing every slot "
         "feature (x2 context modes), checks theorems of the semantics, and exports each page with its expected token stream; every one is "
         "rendered by the real library and compared. Seeded random libraries/pages (depth 3-4) are rendered as plain tags, through the dynamic "
         "component and through Component.render(slots=) and the observations validated by TLC against the same semantics. Disagreements are "
         "accepted only if they equal what a named, listed deviation of the specification predicts (KNOWN-FINDING).",
         "Bounded: exhaustive to 3 page nodes over a fixed component library in both tiers (the 4-node enumeration - 643 k pages, 40 min - was run once "
         "without a disagreement and then dropped from the thorough tier for time); beyond that sampled (incl. "
         "programs with on_render_before / on_render_after hooks). Well-formed programs "
         "only; constructs whose outcome the property does not determine are flagged as zones by the specification and skipped.",
         "§3, §4 C01"),
 "C03": ("model_checking",
         "TLC-evaluated reference semantics (layered scoping rules of DjcSemantics.tla) + exhaustive enumeration of colliding-name pages (MC_Djc 'scope') replayed with context probes + TLC validation of random programs, 2-run pairs and Component.render(context=)",
         "The scoping rules of the TLA+ reference semantics (what a component template sees per mode/`only`; what a fill sees) are the oracle; "
         "TLC enumerates every page up to a node bound over an alphabet of colliding names (page context, loop variables, with-bindings, kwargs, "
         "component data, `only`) in both modes and checks NonInterference as a theorem of the semantics; every page is replayed on the real "
         "library with the caller's Context fingerprinted before/after every component tag and around the render. Random colliding programs, "
         "isolated 2-run pairs under two different page contexts and Component.render(context=) are validated by TLC against the same semantics. "
         "Known deviations are named switches of the specification and must predict the observation exactly.",
         "Bounded exhaustive part (3 page nodes in both tiers - complete with-wrapped fills count as one node -, fixed library); isolated-mode {% with %} between tag and fill that re-binds a bound name is an "
         "unspecified zone (flagged by the spec, skipped).",
         "§3, §4 C03"),
 "C05": ("model_checking",
         "TLC-evaluated reference semantics (provider chain along the rendered structure in DjcSemantics.tla) + implementation-shaped refcount machines (scenario machine DjcProvide.tla model-checked; general machine ProvideRefs.tla with an inductive invariant proved by TLAPS for arbitrary sets, checked inductive by TLC and Apalache) + exhaustive 'provide' pages replayed + TLC validation of random programs, same-process render histories and step-by-step operation traces of the real provide functions (Trace_ProvideRefs.tla)",
         "The `prov` threading of the TLA+ reference semantics decides every inject() result (nearest provider of the rendered structure, default, KeyError, "
         "exact kwargs). DjcProvide.tla models provide_cache / provide_references / all_reference_ids with one action per critical section in the "
         "deferred call order; TLC checks InjectSound, Quiescent and EntryDeletedOnlyWhenDone for all scenarios (and refutes the pre-fix variant as a "
         "vacuity guard). Every enumerated page (providers, two keys, loops, consumers with/without default, provider around a slot) is replayed in both "
         "modes; random programs and histories of 25-40 consecutive renders in one process are validated, with the registries inspected after each render. "
         "ProvideRefs.tla is the general machine (any providers / referrers, any call order, one action per critical section of perfutil/provide.py): "
         "IndInv is proved inductive with TLAPS for arbitrary sets (30 obligations), re-checked by TLC from all IndInv states (2x2) and symbolically by "
         "Apalache (3x4, with a refuted negative control), and implies NoKeyError / OpenAlive / InjectSound / Quiescent; every call the real functions make "
         "during the histories is recorded at its linearization point (under the library's own lock, arguments + result + full registry state) and "
         "validated step by step by TLC against that machine.",
         "A {% provide %} wrapped around a {% fill %} tag is outside the quantifier. KeyError compared by class. In the operation traces only clauses that "
         "contradict the property directly (a registry function raised, inject under a visible provider found nothing, dangling / empty reference sets, residue at "
         "the end of a render) alarm; a state that merely differs from the specification's transformer is counted as model drift (0 on this tree).",
         "§4 C05, A.2"),
 "C15": ("model_checking",
         "TLC state graph of Registry.tla (registries x libraries x formatters) with every transition exported and replayed on real ComponentRegistry/Library objects + TLC trace validation of random histories + implementation-shaped RegistryImpl refinement",
         "RegistryOps/Registry.tla specify register / decorate / unregister / clear / get / has / all / formatter switch over worlds [reg, lib, fmt] with the "
         "admitted outcomes; TLC checks DictLike, TagIffUsed, ProtectedUntouched, ErrorsExact, SameClassNoOp, QueriesPure, Independent. Every transition of "
         "21 (quick) / 36 (thorough) configurations is replayed on fresh real objects from a shortest path, all call sequences to depth 5-6 are replayed "
         "exhaustively, and random traces (3 registries, 6 names, shared libraries, switching formatters) are validated by Trace_C15.",
         "Templates are not compiled (the process-global start-tag table is outside C15); classes sharing a _class_hash are not generated; a taken-over "
         "pre-existing unprotected tag may be absent or restored afterwards (both admitted).",
         "§4 C15"),
 "C19": ("model_checking",
         "TLC enumeration of render / clear / redefine / prerender histories of ScriptEndpoint.tla with admissible-answer tables, each replayed with django.test.Client + TLC trace validation of random histories",
         "ScriptEndpoint.tla models the media cache entries a render must make servable, class redefinition, pre-rendered HTML finished later, cache clears "
         "and GETs over the whole request alphabet (hash x kind x input hash x method); TLC checks EmittedAreServed, MustServeDetermined, AnswersSane. Every "
         "history up to the bound is one TLC state exported with its emitted set and per-request admissible answers and replayed on fresh real Component "
         "classes via Component.render / render_to_response / Template+render_dependencies; emitted URLs are taken from the real HTML and fetched. Random "
         "longer traces (also through COMPONENTS.cache='default') are validated by Trace_C19.",
         "Served bodies compared after stripping outer whitespace; variables-script bodies not checked (feature marked TODO upstream); evictions during a "
         "single render call not modelled; ASCII class names.",
         "§4 C19"),
 "C04": ("model_checking",
         "TLC-evaluated Deps(P, insts) of DjcSemantics.tla over the instances the reference semantics renders + exhaustive pages over an asset-carrying library replayed + TLC validation of random programs x random asset assignments through render_dependencies / middleware / Component.render",
         "The TLA+ specification derives, from the instances rendered into the page (document order) and the assets of their classes, the inline JS/CSS "
         "(non-blank, once, first-appearance order) and the Media files incl. inherited Media (Media.extend) that must be delivered, and nothing for unused "
         "classes. Every enumerated page is rendered in document and fragment mode with placeholder / head-body layouts; the final HTML is parsed "
         "(inline script/style bodies in order, src/href, decoded data-djc JSON, leftover markers) and compared. Random programs with random assets "
         "(shared files, inheritance, extend on/off, dict css, blank code, ASCII / underscore / non-ASCII class names) go through the three entry points.",
         "Order asserted for inline code only; Media files as 'each exactly once'. Documents with nowhere to insert are not used. Subclasses define js/css "
         "themselves (pair inheritance is C16).",
         "§4 C04"),
 "C06": ("fault_enumeration",
         "exhaustive per-program enumeration of failing user-code invocations on the real library + TLC model checking of the implementation-shaped DjcRenderMachine.tla (Quiescent under every fault point, nested render roots) + TLC validation of the recorded callback order and registry sizes of every run (Trace_C06) and of the step-by-step operation trace of the provide reference counting of every run (Trace_ProvideRefs against ProvideRefs.tla) + DjcSemantics oracle for the render after a failure",
         "For every generated program a dry run counts the user-code invocations (get_context_data, inject, on_render_before, template tag, on_render_after) and "
         "EVERY index is made to raise, with exception classes rotating over str / int / errno / tuple / multi-line first arguments. Observed from outside: the "
         "very exception object propagates with its class and the component path; all six per-render registries are empty; the Context and a marker value are "
         "unreachable after gc; the next render equals the reference result; 25 repetitions do not grow the live-object count. DjcRenderMachine.tla models "
         "prepare -> placeholder -> queue -> template -> post-render with a failing alternative at every event and the error-path cleanup; TLC checks "
         "Quiescent for all tree shapes / fault points (and refutes the no-cleanup variant as vacuity guard), and validates every recorded run against it. "
         "Every call of the provide / inject reference counting made by the dry run and by every fault run is recorded at its linearization point and "
         "validated step by step against the general refcount machine ProvideRefs.tla (whose invariant reduces Quiescent to: every register is matched by an unregister).",
         "Fault points are the user-code hooks named above (slot functions via fills); programs whose fault-free render raises or touches a zone are skipped; "
         "memory judged by weakrefs + gc object counts with 40 objects tolerance; sampled programs (not exhaustive over programs).",
         "§4 C06"),
 "C07": ("model_checking",
         "TLC exploration of every interleaving of critical sections in DjcShared.tla + replay of every exported schedule on the real library by a cooperative scheduler + seeded fine-grained schedules (pre-emption before every shared-registry operation / watched source line) compared with solo runs",
         "DjcShared.tla models 2-3 threads executing render workloads (provider+consumer, failing consumer, host component, consumer without provider) over "
         "the shared provide registries, one step per critical section; TLC explores every interleaving, checks InjectSound / NoCrossTalk / Quiescent and "
         "refutes the pre-fix variant (vacuity guard). Every complete schedule TLC exports is replayed by a cooperative scheduler that parks each real "
         "thread at the entry of each critical section; per-thread output / exception must equal the solo run and nothing may be left in the registries. "
         "Fine-grained exploration (traced dict/set registries, cooperative locks, sys.settrace on util/cache.py, cache.py, template.py, "
         "component_media.py) covers all 1-2 pre-emption schedules of the classic pair, random priorities for 2-3 threads, first compiles through a template "
         "cache of size 1-2 (LRU structure projected afterwards) and first access of a class's media.",
         "Each dict/set operation is taken as atomic (GIL); only one thread runs at a time under the scheduler, so true parallel memory effects are out of "
         "scope; benign double initialisation of lazy caches is admitted; quick samples the exported schedules per workload tuple.",
         "§4 C07, A.3"),
 "C08": ("model_checking",
         "TLC enumeration of documents (segment sequences) of DepsInsert.tla with admissible outputs + implementation-shaped DepsInsertImpl refinement + replay through render_dependencies / middleware + TLC trace validation",
         "DepsInsert.tla specifies Expected(doc, mode) over segments Txt / HeadEnd / BodyEnd / CssPh / JsPh / Marker (markers and placeholders removed, tags at "
         "every placeholder else CSS before first </head> and JS before last </body>, fragment: appended) with theorems OnlyDocumentedEdits, "
         "InsertionsDocumented, PlaceholderEquivalence, TypePreserved, PassThrough; DepsInsertImpl models the two-insertion offset arithmetic with named "
         "deviation switches and TLC shows it refines the spec exactly outside the deviation shapes. All documents up to length 4 (quick) / 5 (thorough) are "
         "concretised and replayed as str / bytes / SafeString, document / fragment, and through the middleware (html, non-html, streaming); random longer "
         "documents are validated by Trace_C08 with ACCEPT / DEV / REJECT verdicts.",
         "Upper-case end tags admit both readings (zone); exotic end-tag spellings and malformed markers are not generated; generated tag blocks are taken "
         "from the real output of a marker-only document (their content is C04).",
         "§4 C08"),
 "C09": ("model_checking",
         "TLC enumeration of template sources over segment atoms of Lexer.tla (Tokens, StockTokens) + LexerHandover state machine (index_start / lineno_offset loop) + replay on parse_template / patched Template / stock Lexer + TLC trace validation",
         "Lexer.tla gives Tokens(src) (type, stripped contents, span, line) and a transcription of Django's tag_re split; TLC checks Partition, StockEqual, "
         "OnlyQuotedClosersDiffer, SingleLineSame and that the hand-over loop (LexerHandover) refines it, with OffsetInv / ResumeInv as invariants and each "
         "named deviation producing a counterexample that reproduces on the code. Every enumerated source (<=3 segments quick, <=5 thorough subsets) is run "
         "through parse_template, the patched Template (debug on/off) and both tag_re settings; random sources of 4-14 segments are validated by Trace_C09.",
         "Zones: block tag with an unbalanced quote, unterminated tag containing a quoted closer, multiline_tags=False with a quoted tag spanning a line "
         "break (TemplateSyntaxError or any faithful partition accepted).",
         "§4 C09"),
 "C10": ("model_checking",
         "differential of patched vs original Template internals on generated stock templates/families with the stock fragment of DjcSemantics.tla as third opinion + TLC-evaluated inlining law Run(Flat(P)) of DjcFamilies.tla on component programs split into extends/block/include families",
         "(a) Seeded stock-Django templates and families (text, variables, if/for/with, include, extends/block/block.super, plus filter, autoescape, firstof, "
         "cycle, a simple_tag, quoted arguments and malformed tags as opaque built-ins) are rendered by the patched Template class and by the ORIGINAL "
         "compile_nodelist / render / tag_re captured before django_components was set up, with engine.debug on and off: output bytes, exception class and "
         "message, Context layers and render_context depth must be identical, and equal to the TLA+ reference semantics on the modelled fragment. "
         "(b) DjcFamilies.tla defines Flat(P), the hand resolution of extends / block / block.super / include, and TLC evaluates Run(Flat(P)) (checking that "
         "Flat leaves no family node and is idempotent) for component programs whose page and component templates are split into base + child (+ include); "
         "the real render of the family must equal it in both context modes.",
         "multiline_tags=True makes sources with a newline between an opening delimiter and its closer a documented deviation (not generated); no quoted "
         "closers in block tags; families are sampled (seeded), not exhaustively enumerated. One narrow shape-keyed open finding (default alias inside a block "
         "override inside that fill) excuses token differences in programs of that shape only.",
         "§4 C10"),
 "C11": ("model_checking",
         "TLC state machine ArgBinding.tla (CPython's binding algorithm: Declare*/Pass*) enumerating (signature, call) cases, each replayed three ways (literal CPython call, fast-path tag, fallback-path tag) + TLC trace validation of deeper random cases",
         "ArgBinding.tla models Python's argument binding as an online machine with invariants MachineAgreesWithDeclarative, EveryValueBoundOnce, "
         "KeysNonIdentifierOnlyViaKwargs, PositionalOnlyNeverByKeyword, ErrorsAreSticky; every reachable state is a case exported with Python's answer, the "
         "admissible set and what the named deviations predict. Each case is executed as a literal CPython call (spec vs CPython: machinery error if they "
         "differ), through a real template on the fast validation path and on the fallback path; both must be admissible and agree. Random cases up to 7 "
         "parameters / 7 items are validated by Trace_C11.",
         "Four zones admit several answers (list spread after keyword, positional after empty dict spread, repeated key via spread, literally repeated keyword); "
         "kwargs order and messages are not compared.",
         "§4 C11"),
 "C14": ("model_checking",
         "TLC-evaluated Roots / marks of DjcSemantics.tla + exhaustive 'elems' pages replayed with html.parser + TLC validation of random programs + deep chains against the closed form cross-checked with TLC",
         "The reference semantics computes for every element occurrence the set of component instances it is a root of (depth 0 of the instance's output, "
         "through slot content and components placed at depth 0); every enumerated page (0..n roots, text-only, component-as-root, roots from fills / "
         "defaults / loops) and random programs are rendered, the HTML parsed, and the data-djc-id-* attributes of every element compared through the "
         "Component.id echoes, instances that echo none (silent wrappers) by unification (also: ids distinct, no placeholder left, child attrs consumed). "
         "Chains of depth 1100 in quick, 2000 (wrapped) / 300 (as root) in thorough; both tiers enumerate pages to 3 nodes (4 nodes = 1 M pages was too slow).",
         "Well-formed lower-case non-void elements with quoted attributes; the Rust HTML pass is trusted; html.parser lower-cases attribute names.",
         "§4 C14"),
 "C02": ("model_checking",
         "TLC construction of argument lists (stack machine over TagArgs.tla: Denote, layout relation Text, Invalid) exported with 15 pairwise-covering layouts each, replayed on a @template_tag probe, {% component %}, the shorthand formatter and {% slot %} + TLC trace validation of deeper random lists",
         "TagArgs.tla gives the abstract argument lists (pos / kw / aggregate / spread / flag; nested list and dict literals with * / ** spreads; vars, numbers, "
         "strings, translations, nested-template strings, filter chains), their denotation Denote(args) and the layout relation Text(args, style) over 18 "
         "whitespace / quote / trailing-comma / slash knobs; TLC checks PairwiseCovered, DocExamplesOK, GeneratorAgrees, SkeletonInvariant, SerialIsLayout. "
         "Every list inside the bounds is exported with 15 layouts and the expected denotation and replayed on a probe tag and on {% component %} (leaves "
         "valued by stock FilterExpression); invalid constructs must raise TemplateSyntaxError; deeper random lists are validated by Trace_C02.",
         "Not generated: leading-colon keys, duplicate keywords, positional after keyword, filters on literals; whitespace between a spread operator and a "
         "literal operand admits TemplateSyntaxError as well.",
         "§4 C02"),
 "C12": ("exploration",
         "TLC enumeration of every string up to length 4 (quick) / 5 (thorough) over the 18-symbol syntax alphabet and of one-symbol mutants of valid tags (TagArgs.tla input space), each fed to parse_tag / Template() under a watchdog + round trip through the real serialiser + growth exponent from interpreter line events at n, 2n, 4n",
         "The TLA+ specification generates the input space (every short string over the syntax-relevant alphabet, template strings, mutants of valid texts) "
         "and the round-trip expectation Serial; termination and resource use of the Python scanner are observed, not modelled: every input must end in "
         "success or TemplateSyntaxError (any other exception class, a timeout or memory blow-up is a violation), canonical serialisations re-parse to the "
         "same arguments, and the fitted growth exponent of line-event counts must stay below 2.5. AdversarialInputs.tla / MC_C12P.tla build every pumped text "
         "pre.u^k.suf (k = 48 / 56, unterminated variants included) over the tag and template alphabets, judged against the spec's CPU-time budget "
         "CpuBudgetMs(n) measured as CPU time of the worker (a runaway parse is killed by a supervising parent); MC_C12T.tla enumerates every library tag "
         "followed by every sequence of <= 2 lead words (names, keywords, flags, spreads, garbage; self-closing / block / left open) through Template().",
         "Exploration level: exhaustive only for short strings and pump shapes; the time bound is a budget (1 s + n^2/1000 ms), not a complexity proof.",
         "§4 C12"),
 "C13": ("model_checking",
         "TLC enumeration over HtmlAttrs.tla (Merge / Expected + a model of the WHATWG attribute tokenizer), SlotEscape.tla (escape count machine) and EndTagGuard.tla (script-data tokenizer), every state replayed through real templates / Component.render / html.parser + TLC trace validation",
         "HtmlAttrs.tla specifies defaults overridden by attrs with keywords appended, None/False omitted, True bare, and TLC evaluates that parsing the "
         "specified emission yields exactly the expected names and values (RoundTripI, LawOverride, LawAppend, EscapeIsSafe); SlotEscape.tla bounds the "
         "number of escapings of Python-passed slot content to the admitted set (never twice) along re-pass chains; EndTagGuard.tla decides which JS/CSS "
         "strings terminate their element. Every TLC state is replayed ({% html_attrs %} in all documented forms, slot chains through real components, "
         "js/css through Component.render); non-conforming results go back to TLC, which decides whether a named deviation explains them; random deeper "
         "runs are validated by Trace_C13.",
         "Appending to/with None/True/False admits any rendering of that name or TypeError; SafeString values verbatim or escaped; only lower-case names; "
         "fragment-mode JS and script-data escaped states not modelled.",
         "§4 C13"),
 "C16": ("model_checking",
         "TLC enumeration of class hierarchies over MediaInherit.tla (Files, linear-extension order, C3 MRO, pair rule, memo machine with Access actions) + implementation-shaped MediaInheritImpl refinement + replay on real classes built with type() + TLC trace validation",
         "MediaInherit.tla specifies Files(c, t) (own plus the bases selected by Media.extend, each once, order a linear extension of every declared list when "
         "acyclic), a transcription of C3 cross-checked against Python's __mro__, the js/css/template pair rule and a memo machine whose invariant "
         "OrderIndependent says the result does not depend on which class is accessed first. All exported hierarchies are built for real in fresh "
         "namespaces and every access order replayed; MediaInheritImpl transcribes the resolution code with three named deviations and classifies runs "
         "the abstract spec rejects; 6-class random hierarchies are validated by Trace_C16.",
         "Relative order of files no declared list relates, cyclic lists (compared as sets) and which classes end up memoised are unspecified; SafeString "
         "entries and custom media_class not generated.",
         "§4 C16"),
 "C17": ("model_checking",
         "TLC enumeration of (tree, configuration, lookup) over Finder.tla's Exposed predicate, replayed through finder.list / find / staticfiles serve + TLC trace validation of random sessions",
         "Finder.tla: Exposed(path, cfg) iff some allowed pattern matches and no forbidden one does (suffix = literal endswith; a catalogue of regexes with TLA+ "
         "predicates calibrated against Python re), lookup normalisation (., .., absolute, sibling prefixes) with NoEscape, DefaultsHideBackend, ForbidWins. "
         "Every enumerated state is materialised on disk and replayed through list, find (canonical + respellings + escapes) and the serve view; random "
         "sessions with metacharacter / newline / upper-case names on one long-lived finder are validated by Trace_C17.",
         "Non-canonical spellings of exposed files may or may not be answered; both deprecated and new forbidden settings together, suffixes without a dot, "
         "regexes distinguishing absolute from relative paths, symlinks and collectstatic itself are not covered.",
         "§4 C17"),
 "C20": ("model_checking",
         "TLC enumeration of directory trees x root variants x suffixes over Autodiscover.tla (Selected, DotPath, Loadable), replayed on get_component_files / import / autodiscover (in-process and fresh interpreters) + TLC trace validation",
         "Autodiscover.tla specifies which files are selected (suffix, no part starting with _ except __init__.py, no hidden part, each once) and their dotted "
         "import path from the project root or app package; every enumerated tree (11 dirs x 21 names, 9 root variants incl. legacy STATICFILES_DIRS tuple "
         "form and apps inside / outside BASE_DIR) is materialised, get_component_files compared, every loadable file imported and checked to be that very "
         "file, autodiscover() run where determined; random multi-root sessions are validated by Trace_C20.",
         "Dotted paths of entries whose directory or stem contains a dot are not compared (selection only); symlinks, overlapping roots, suffixes with glob "
         "characters are not generated.",
         "§4 C20"),
 "C18": ("model_checking",
         "TLC exhaustive state graph of LRUCache/TemplateCache + transition replay + TLC trace validation",
         "TLC enumerates the complete state graph of the LRU specification for every cache size and checks "
         "Bounded/DictMatchesList/EvictsLRU/Identity/Transparent; every transition is replayed on the real LRUCache with "
         "the projected state (dict + both list walks) compared before and after, which by induction covers every "
         "history over those keys; random long histories of LRUCache, cached_template() and component renders under "
         "template_cache_size 0/1/2/3/128 are validated by TLC against the same specification.",
         "Projection (dict items, forward/backward walk, sentinels) is assumed to capture all behaviour-relevant state; "
         "bounded to 3-4 keys exhaustively, 8 keys in random traces; Django's Template class trusted.",
         "§4 C18"),
}
NOT_YET = "C10: check not built yet (stock-template differential and inlining law); planned per DESIGN.md §4 C10"

# additions of session 5 (DESIGN section 11): appended to the level text of the check
ADDED = {
 "C01": " Re-rendering sub-check: components installed once, page template compiled once, rendered A, B, A with two page contexts in one process; every render must be what the semantics says for its own context.",
 "C02": " The Python type of spread values is part of the value alphabet (mappings that are not dict, iterables that are not list; the type changes between the two contexts).",
 "C04": " Second asset alphabet (assets reached only through inheritance / Media.extend lists, inline code over a backslash / replacement-template alphabet) replayed on every 4th enumerated page and in the random part.",
 "C05": " Re-rendering sub-check with providers (same compiled templates rendered A, B, A).",
 "C06": " Component-path oracle: per fault kind the multiset of annotated component paths over the fault runs equals the chains of the specification's instance tree. After a failed render the caller's Context has the layers it had before, the next render with the SAME Context equals the dry run, and a fixed canary render through the Python API gives what it gives in a fresh process.",
 "C07": " Every TLC schedule and every fine-grained schedule of the provide workloads is also validated as an interleaved operation trace of the provide functions (logged at their linearization points) against the sequential machine ProvideRefs.tla.",
 "C08": " The texts the inserted blocks carry range over a payload alphabet (backslash sequences, $1, %s, {0}) exported by TLC and must be inserted byte for byte (trace clause `payload`).",
 "C09": " Atom alphabet includes verbatim near-misses (names with verbatim / endverbatim as proper prefix or suffix, other separators, stray and almost-closing end tags).",
 "C10": " Families with component tags (blocks inside their fills) located inside included partials; theorem PartialBlockNamesIrrelevant.",
 "C13": " Aggregate dictionaries may repeat a name (joined in template order); the end-tag guard is judged at every render of a history of renders (HistoryLaw).",
 "C17": " String entries without a leading dot are in the suffix alphabet (matched exactly as given).",
 "C18": " Component-level transparency over tables of classes that share an import path (OwnTemplate, NoSharing), every render / clear sequence enumerated for 4 cache sizes.",
 "C19": " The URL configuration (script prefix, URLconf) is state of the machine (SetUrl); every emitted URL must be served under the configuration active at that render.",
 "C20": " Configured directories carry spellings (.., ., trailing slash, symbolic link, repeated mention), app_dirs entries may have several segments; theorem: spelling never changes the expected result.",
}


def main():
    checks = []
    for pid in ALL:
        if pid not in CHECKS:
            continue
        cat, tech, text, note, ref = CHECKS[pid]
        text = text + ADDED.get(pid, "")
        checks.append({
            "property_id": pid,
            "quick_cmd": f"./check {pid} --tier quick",
            "thorough_cmd": f"./check {pid} --tier thorough",
            "evidence_file": f"/verif/evidence/{pid}.json",
            "replay_cmd_template": f"./check {pid} --replay {{path}}",
            "engine": "tlc+replay",
            "level_claimed": {"category": cat, "text": text, "design_ref": ref},
            "level_note": note,
            "technique": tech,
        })
    hooks = json.loads((ROOT / "hooks.json").read_text()) if (ROOT / "hooks.json").exists() else {"source_commits": []}
    m = {
        "version": 1,
        "setup_cmd": "mkdir -p /verif/.work /verif/evidence /verif/replays && java -version 2>&1 | head -1 && /venv/bin/python -c 'import django, django_components'",
        "hooks": {
            "guard": "DJC_VERIF",
            "enable": "no source hooks are needed so far: observation is through public API, user callbacks and harness-side "
                      "wrappers; if hooks are added they are enabled with DJC_VERIF=1",
            "baseline_off_cmd": "cd /repo && /venv/bin/python -m pytest -ra -q -p no:cacheprovider --timeout=900 --continue-on-collection-errors",
            "source_commits": hooks.get("source_commits", []),
            "add_only": True,
        },
        "engines": [{"name": "tlc+replay", "path": "/verif/vf", "serves_properties": sorted(CHECKS),
                     "kind_free_text": "explicit TLA+ specifications in /verif/specs checked by TLC; TLC-exported cases replayed "
                                       "on the real library; traces recorded from the real library validated by TLC"}],
        "checks": checks,
        "not_applicable": [{"property_id": p, "reason": NOT_YET} for p in ALL if p not in CHECKS],
        "notes": "See DESIGN.md. Known findings: KNOWN_FINDINGS.txt. Seeded breaking changes: seeded/.",
    }
    (ROOT / "MANIFEST.json").write_text(json.dumps(m, indent=1) + "\n")
    try:
        sys.path.insert(0, "/opt/veriftools/pyvenv/lib/python3.11/site-packages")
        import jsonschema
        jsonschema.validate(m, json.load(open("/root/.vp/MANIFEST.schema.json")))
        print("MANIFEST.json valid;", len(checks), "checks")
    except ImportError:
        print("MANIFEST.json written (jsonschema not importable here)")

main()
